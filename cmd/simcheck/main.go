// Command simcheck is the driver of every check in /verif: it fans a property's
// seeded runs out to worker processes, aggregates, verifies and reports.
package main

import (
	"verif/sim/kit"

	_ "verif/props/eckpt"
	_ "verif/props/edaisen"
	_ "verif/props/edet"
	_ "verif/props/edm"
	_ "verif/props/emem"
	_ "verif/props/enet"
	_ "verif/props/enoc"
	_ "verif/props/eobj"
	_ "verif/props/eserial"
	_ "verif/props/etrace"
	_ "verif/props/evm"
)

func main() { kit.Main() }
