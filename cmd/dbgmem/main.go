// Command dbgmem prints the message log of an E-mem replay case (debug aid).
package main

import (
	"encoding/json"
	"fmt"
	"os"
	"strings"

	"github.com/sarchlab/akita/v5/messaging"
	"github.com/sarchlab/akita/v5/tracing"

	"verif/props/emem"
)

type pr struct {
	name string
	d    tracing.NamedHookable
	ids  map[uint64]string
}

func (p *pr) StartTask(t tracing.TaskStart) {
	s := ""
	if m, ok := t.Detail.(messaging.Msg); ok {
		s = fmt.Sprintf("msg=%d", m.Meta().ID)
	}

	p.ids[t.ID] = fmt.Sprintf("%s/%s %s", t.Kind, t.What, s)
	fmt.Printf("T %d %s START %d %s/%s %s\n", t.Time, p.name, t.ID, t.Kind, t.What, s)
}
func (p *pr) EndTask(t tracing.TaskEnd) { fmt.Printf("T %d %s END %d %s\n", t.Time, p.name, t.ID, p.ids[t.ID]) }
func (p *pr) AddTaskTag(t tracing.TaskTag) {
	fmt.Printf("T %d %s TAG %s on %d %s\n", t.Time, p.name, t.What, t.TaskID, p.ids[t.TaskID])
}
func (p *pr) AddMilestone(tracing.Milestone) {}

func main() {
	raw, _ := os.ReadFile(os.Args[1])

	var rf struct {
		Case json.RawMessage `json:"case"`
	}

	_ = json.Unmarshal(raw, &rf)

	var cfg emem.Config
	if err := json.Unmarshal(rf.Case, &cfg); err != nil {
		panic(err)
	}

	l, w, _ := emem.TraceRun(&cfg, nil, func(a *emem.Asm) {
		for _, d := range a.Domains() {
			if len(os.Args) > 2 && strings.HasPrefix(d.Name(), os.Args[2]) {
				tracing.CollectTrace(d, &pr{name: d.Name(), d: d, ids: map[uint64]string{}})
			}
		}
	})

	_ = l
	fmt.Println("violation:", w.V)
}
