//go:build woven

// Package conccheck is the driver of the E-conc checks. It is a test binary
// because testing/synctest needs a *testing.T; `./check` builds it with
// `go test -c -tags "verif woven" -overlay <woven sources>`.
package conccheck

import (
	"testing"

	"verif/props/econc"
	"verif/sim/kit"
)

func TestSimcheck(t *testing.T) {
	econc.T = t
	kit.SelfArgs = []string{"-test.run=^TestSimcheck$", "-test.timeout=0"}
	kit.Main()
}
