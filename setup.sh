#!/bin/bash
# Builds the check driver offline from files on disk only.
set -e
cd "$(dirname "$0")"
export GOFLAGS=-mod=mod GOPROXY=off GOSUMDB=off GOTOOLCHAIN=local
mkdir -p bin evidence
go1.26.8 build -tags verif -o bin/simcheck ./cmd/simcheck
echo "setup ok"
