package kit

import (
	"encoding/json"
	"fmt"
	"sort"
)

// Tier selects the exploration budget.
type Tier string

// Tiers.
const (
	Quick    Tier = "quick"
	Thorough Tier = "thorough"
)

// Violation is an oracle failure. Oracle names the oracle that failed; Sig is a
// stable signature of the *class* of failure (what known_findings.json matches
// on and what shrinking must preserve); Detail is free text.
type Violation struct {
	Oracle string `json:"oracle"`
	Sig    string `json:"sig"`
	Detail string `json:"detail"`
}

func (v *Violation) String() string {
	if v == nil {
		return "<none>"
	}

	return fmt.Sprintf("[%s] %s: %s", v.Oracle, v.Sig, v.Detail)
}

// Violate builds a violation record.
func Violate(oracle, sig, format string, args ...any) *Violation {
	return &Violation{Oracle: oracle, Sig: sig, Detail: fmt.Sprintf(format, args...)}
}

// Outcome is what one simulated run reports.
type Outcome struct {
	Violation    *Violation     `json:"violation,omitempty"`
	Inconclusive string         `json:"inconclusive,omitempty"`
	Shape        string         `json:"shape,omitempty"`
	NonTrivial   bool           `json:"nontrivial"`
	SimTimePs    uint64         `json:"sim_time_ps"`
	Events       uint64         `json:"events"`
	Steps        uint64         `json:"steps"`
	Faults       map[string]int `json:"faults,omitempty"`
	Probes       map[string]int `json:"probes,omitempty"`
	Sample       any            `json:"sample,omitempty"`
}

// Fault counts one fired fault of the given kind.
func (o *Outcome) Fault(kind string, n int) {
	if n == 0 {
		return
	}

	if o.Faults == nil {
		o.Faults = map[string]int{}
	}

	o.Faults[kind] += n
}

// Probe counts one hit of a rare-condition probe.
func (o *Outcome) Probe(name string, n int) {
	if n == 0 {
		return
	}

	if o.Probes == nil {
		o.Probes = map[string]int{}
	}

	o.Probes[name] += n
}

// Env is what a run may use from its surroundings.
type Env struct {
	Tier    Tier
	Scratch string // private scratch directory of this worker (exists)
	Replay  bool   // true when re-executing a recorded case
	Exe     string // path of this binary (to spawn fresh processes)
}

// Budget bounds one tier of one property.
type Budget struct {
	Runs  int // number of cases
	WallS int // stop handing out new cases after this many seconds
	CaseS int // watchdog per case
}

// Spec describes one property check. C is the case type: the explicit,
// JSON-serialisable script of one run (configuration + operation list + fault
// list + decision list). A replay file stores the case itself, so replay never
// depends on the generator.
type Spec[C any] struct {
	ID          string
	Level       string // exploration | fault_enumeration
	Rule        string
	Assumptions []string
	Real        []string // components that ran real code
	Stubs       []string // components that are harness stubs
	FaultKinds  []string // fault kinds this check can inject
	Quick       Budget
	Thorough    Budget
	Workers     int // 0 = all cores
	// ReplayTries > 1 lets a replay re-execute a case several times: only for
	// properties whose violation is itself nondeterminism of the code under test.
	ReplayTries int
	Gen         func(r *Rand, tier Tier) C
	Exec        func(c C, env *Env) Outcome
	// Shrink proposes strictly simpler variants of a failing case, most
	// aggressive first. Optional.
	Shrink func(c C) []C
}

// erased is the type-erased form the driver works with.
type erased struct {
	ID, Level, Rule    string
	Assumptions        []string
	Real, Stubs, Kinds []string
	Quick, Thorough    Budget
	Workers            int
	ReplayTries        int
	Gen                func(r *Rand, tier Tier) json.RawMessage
	Exec               func(c json.RawMessage, env *Env) (Outcome, error)
	Shrink             func(c json.RawMessage) []json.RawMessage
}

var registry = map[string]*erased{}

// Register adds a property check to the registry.
func Register[C any](s Spec[C]) {
	e := &erased{
		ID: s.ID, Level: s.Level, Rule: s.Rule, Assumptions: s.Assumptions,
		Real: s.Real, Stubs: s.Stubs, Kinds: s.FaultKinds,
		Quick: s.Quick, Thorough: s.Thorough, Workers: s.Workers, ReplayTries: s.ReplayTries,
	}
	e.Gen = func(r *Rand, tier Tier) json.RawMessage {
		c := s.Gen(r, tier)

		b, err := json.Marshal(c)
		if err != nil {
			panic(fmt.Sprintf("harness: cannot marshal case: %v", err))
		}

		return b
	}
	e.Exec = func(raw json.RawMessage, env *Env) (Outcome, error) {
		var c C
		if err := json.Unmarshal(raw, &c); err != nil {
			return Outcome{}, fmt.Errorf("harness: cannot unmarshal case: %w", err)
		}

		return s.Exec(c, env), nil
	}

	if s.Shrink != nil {
		e.Shrink = func(raw json.RawMessage) []json.RawMessage {
			var c C
			if err := json.Unmarshal(raw, &c); err != nil {
				return nil
			}

			var out []json.RawMessage

			for _, v := range s.Shrink(c) {
				b, err := json.Marshal(v)
				if err == nil {
					out = append(out, b)
				}
			}

			return out
		}
	}

	if _, dup := registry[s.ID]; dup {
		panic("duplicate property " + s.ID)
	}

	registry[s.ID] = e
}

// IDs lists registered properties.
func IDs() []string {
	var ids []string
	for id := range registry {
		ids = append(ids, id)
	}

	sort.Strings(ids)

	return ids
}

// DropAt returns the slice without element i (a shrinking helper).
func DropAt[T any](s []T, i int) []T {
	out := make([]T, 0, len(s)-1)
	out = append(out, s[:i]...)
	out = append(out, s[i+1:]...)

	return out
}

// ListShrinks returns ddmin-style sublists of s: halves, quarters, …, then
// single removals (capped), most aggressive first.
func ListShrinks[T any](s []T) [][]T {
	var out [][]T

	n := len(s)
	if n == 0 {
		return nil
	}

	for chunk := n / 2; chunk >= 1; chunk /= 2 {
		for start := 0; start < n; start += chunk {
			end := start + chunk
			if end > n {
				end = n
			}

			c := make([]T, 0, n-(end-start))
			c = append(c, s[:start]...)
			c = append(c, s[end:]...)
			out = append(out, c)

			if len(out) > 400 {
				return out
			}
		}

		if chunk == 1 {
			break
		}
	}

	return out
}
