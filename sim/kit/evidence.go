package kit

import (
	"encoding/json"
	"fmt"
	"os"
	"path/filepath"
	"sort"
	"strings"
)

// KnownFinding is one entry of /verif/known_findings.json.
type KnownFinding struct {
	Property string `json:"property"`
	Status   string `json:"status"` // open | fixed
	Sig      string `json:"sig"`    // exact violation signature it covers
	Commit   string `json:"commit,omitempty"`
	What     string `json:"what"`
}

var knownCache []KnownFinding
var knownLoaded bool

func loadKnown() []KnownFinding {
	if knownLoaded {
		return knownCache
	}

	knownLoaded = true

	b, err := os.ReadFile(filepath.Join(Home(), "known_findings.json"))
	if err != nil {
		return nil
	}

	var f struct {
		Findings []KnownFinding `json:"findings"`
	}

	if err := json.Unmarshal(b, &f); err != nil {
		fmt.Fprintf(os.Stderr, "known_findings.json: %v\n", err)
		os.Exit(2)
	}

	knownCache = f.Findings

	return knownCache
}

// matchKnown returns the open finding that covers this violation, if any.
// "fixed" entries suppress nothing.
func matchKnown(prop string, v *Violation) *KnownFinding {
	for i, k := range loadKnown() {
		if k.Property == prop && k.Status == "open" && k.Sig == v.Sig {
			return &loadKnown()[i]
		}
	}

	return nil
}

func writeEvidence(
	p *erased, t Tier, seed uint64, agg *workerSummary,
	distinct, workers int, wallS float64, violations int, known map[string]bool,
) {
	perHour := 0.0
	if wallS > 0 {
		perHour = float64(agg.Evaluations) / wallS * 3600
	}

	kinds := map[string]int{}
	for _, k := range p.Kinds {
		kinds[k] = 0
	}

	for k, v := range agg.Faults {
		kinds[k] = v
	}

	samples := agg.Samples
	if len(samples) == 0 {
		samples = []any{"(no sample recorded)"}
	}

	var kl []string
	for k := range known {
		kl = append(kl, strings.TrimPrefix(k, "KNOWN-FINDING: "))
	}

	sort.Strings(kl)

	cov := map[string]any{
		"evaluations":            agg.Evaluations,
		"distinct_nontrivial":    distinct,
		"nontrivial_evaluations": agg.NonTrivial,
		"rule":                   p.Rule,
		"samples":                samples,
		"exhaustive":             false,
		"simulated_runs":         agg.Evaluations,
		"runs_per_hour":          int64(perHour),
		"seeds_per_hour":         int64(perHour),
		"simulated_time_ps":      agg.SimTimePs,
		"engine_events_handled":  agg.Events,
		"scheduler_steps":        agg.Steps,
		"faults_fired":           kinds,
		"probes_hit":             agg.Probes,
		"inconclusive_runs":      agg.Inconclusive,
		"inconclusive_reasons":   agg.InconclWhy,
		"workers":                workers,
		"hit_wall_budget":        agg.HitDeadline,
		"real_components":        p.Real,
		"stub_components":        p.Stubs,
		"known_findings_seen":    append([]string{}, kl...),
	}
	ev := map[string]any{
		"property_id": p.ID,
		"tier":        string(t),
		"seed":        int64(seed & 0x7fffffffffffffff),
		"level":       p.Level,
		"coverage":    cov,
		"assumptions": p.Assumptions,
		"wall_s":      wallS,
		"violations":  violations,
	}

	dir := filepath.Join(Home(), "evidence")
	_ = os.MkdirAll(dir, 0o755)
	b, _ := json.MarshalIndent(ev, "", " ")
	// a check made of two binaries (C11: sequential histories, then the same port
	// under the goroutine scheduler) writes the second part next to the first
	_ = os.WriteFile(filepath.Join(dir, p.ID+os.Getenv("VERIF_EVIDENCE_SUFFIX")+".json"), append(b, '\n'), 0o644)
}
