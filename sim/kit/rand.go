// Package kit holds the property-independent machinery of the simulator:
// the single PRNG every choice is drawn from, seed derivation, the case /
// outcome / violation records, replay files, the ddmin shrinker, known
// findings, the evidence writer and the multi-process driver.
package kit

import "hash/fnv"

// Rand is a splitmix64 generator. It is the only source of randomness in the
// harness: one VERIF_SEED -> Derive(seed, property, runIndex) -> one Rand per
// run. It is implemented here (not math/rand) so that a seed means the same
// execution on every toolchain.
type Rand struct{ s uint64 }

// NewRand returns a generator for the given seed.
func NewRand(seed uint64) *Rand { return &Rand{s: seed} }

// Uint64 returns the next 64 random bits.
func (r *Rand) Uint64() uint64 {
	r.s += 0x9e3779b97f4a7c15
	z := r.s
	z = (z ^ (z >> 30)) * 0xbf58476d1ce4e5b9
	z = (z ^ (z >> 27)) * 0x94d049bb133111eb

	return z ^ (z >> 31)
}

// Intn returns a value in [0, n). n <= 0 yields 0.
func (r *Rand) Intn(n int) int {
	if n <= 1 {
		return 0
	}

	return int(r.Uint64() % uint64(n))
}

// Range returns a value in [lo, hi].
func (r *Rand) Range(lo, hi int) int {
	if hi <= lo {
		return lo
	}

	return lo + r.Intn(hi-lo+1)
}

// Bool flips a fair coin.
func (r *Rand) Bool() bool { return r.Uint64()&1 == 1 }

// Chance is true with probability num/den.
func (r *Rand) Chance(num, den int) bool { return r.Intn(den) < num }

// Weighted returns an index chosen with the given weights.
func (r *Rand) Weighted(w ...int) int {
	total := 0
	for _, x := range w {
		total += x
	}

	if total <= 0 {
		return 0
	}

	k := r.Intn(total)
	for i, x := range w {
		if k < x {
			return i
		}

		k -= x
	}

	return len(w) - 1
}

// PickInt returns one of the given values.
func (r *Rand) PickInt(vals ...int) int { return vals[r.Intn(len(vals))] }

// PickU64 returns one of the given values.
func (r *Rand) PickU64(vals ...uint64) uint64 { return vals[r.Intn(len(vals))] }

// Perm returns a permutation of 0..n-1.
func (r *Rand) Perm(n int) []int {
	p := make([]int, n)
	for i := range p {
		p[i] = i
	}

	for i := n - 1; i > 0; i-- {
		j := r.Intn(i + 1)
		p[i], p[j] = p[j], p[i]
	}

	return p
}

// Bytes returns n random bytes.
func (r *Rand) Bytes(n int) []byte {
	b := make([]byte, n)
	for i := range b {
		b[i] = byte(r.Uint64())
	}

	return b
}

// Fork returns an independent generator derived from this one and a label, so
// that adding draws in one part of a generator does not shift another part.
func (r *Rand) Fork(label string) *Rand {
	return NewRand(Derive(r.Uint64(), label, 0))
}

// Derive mixes a seed, a label and an index into a new seed.
func Derive(seed uint64, label string, idx uint64) uint64 {
	h := fnv.New64a()
	_, _ = h.Write([]byte(label))
	x := seed ^ (h.Sum64() * 0x9e3779b97f4a7c15) ^ (idx+1)*0xd6e8feb86659fd93
	r := Rand{s: x}
	r.Uint64()

	return r.Uint64()
}

// Hash64 hashes a string (used for shape / signature hashes).
func Hash64(s string) uint64 {
	h := fnv.New64a()
	_, _ = h.Write([]byte(s))

	return h.Sum64()
}
