package kit

import (
	"bufio"
	"bytes"
	"encoding/json"
	"flag"
	"fmt"
	"io"
	"log"
	"os"
	"os/exec"
	"path/filepath"
	"runtime"
	"runtime/debug"
	"sort"
	"strconv"
	"strings"
	"sync"
	"time"
)

// ReplayFile is the on-disk form of one failing (or any) case.
type ReplayFile struct {
	Property  string          `json:"property"`
	Seed      uint64          `json:"seed"`
	RunIndex  int             `json:"run_index"`
	Tier      Tier            `json:"tier"`
	Shrunk    bool            `json:"shrunk"`
	ShrinkLog string          `json:"shrink_log,omitempty"`
	Violation *Violation      `json:"violation"`
	Case      json.RawMessage `json:"case"`
}

type workerSummary struct {
	Type         string         `json:"type"`
	Worker       int            `json:"worker"`
	Evaluations  int            `json:"evaluations"`
	NonTrivial   int            `json:"nontrivial"`
	Shapes       []uint64       `json:"shapes"`
	AllShapes    int            `json:"all_shapes"`
	Inconclusive int            `json:"inconclusive"`
	InconclWhy   map[string]int `json:"inconclusive_why,omitempty"`
	SimTimePs    uint64         `json:"sim_time_ps"`
	Events       uint64         `json:"events"`
	Steps        uint64         `json:"steps"`
	Faults       map[string]int `json:"faults"`
	Probes       map[string]int `json:"probes"`
	Samples      []any          `json:"samples"`
	WallS        float64        `json:"wall_s"`
	HitDeadline  bool           `json:"hit_deadline"`
	// Fingerprint is the XOR over all cases of hash(run index, shape, verdict): two
	// executions of the same seed must produce the same value (determinism self-test).
	Fingerprint uint64 `json:"fingerprint"`
}

type workerViolation struct {
	Type      string     `json:"type"`
	Worker    int        `json:"worker"`
	RunIndex  int        `json:"run_index"`
	Violation *Violation `json:"violation"`
	Replay    string     `json:"replay"`
}

// Home returns the /verif directory (parent of bin/).
func Home() string {
	if h := os.Getenv("VERIF_HOME"); h != "" {
		return h
	}

	exe, err := os.Executable()
	if err == nil {
		d := filepath.Dir(filepath.Dir(exe))
		if _, err := os.Stat(filepath.Join(d, "properties.jsonl")); err == nil {
			return d
		}
	}

	return "/verif"
}

func scratchRoot() string {
	if s := os.Getenv("VERIF_SCRATCH"); s != "" {
		return s
	}

	return "/var/tmp/verif-scratch"
}

// Main is the entry point shared by every check binary.
// Flags are package-level so that a test binary (the E-conc checks need a
// *testing.T for testing/synctest) can let the testing package parse them.
var (
	prop    = flag.String("prop", "", "property id")
	tier    = flag.String("tier", "", "quick|thorough")
	replay  = flag.String("replay", "", "replay file")
	worker  = flag.Bool("worker", false, "internal: run as worker")
	wi      = flag.Int("w", 0, "internal: worker index")
	nw      = flag.Int("nw", 1, "internal: worker count")
	seedF   = flag.String("seed", "", "seed (default $VERIF_SEED or 1)")
	runs    = flag.Int("runs", 0, "override number of runs")
	wall    = flag.Int("wall", 0, "override wall budget (s)")
	dump    = flag.Int("dump", -1, "print the generated case with this run index and exit")
	one     = flag.Int("one", -1, "execute only this run index, verbosely")
	list    = flag.Bool("list", false, "list properties")
	workers = flag.Int("workers", 0, "override worker count")
	helper  = flag.String("helper", "", "internal: helper mode")
)

// SelfArgs are prepended to the arguments whenever this binary starts itself
// (a test binary needs -test.run etc.).
var SelfArgs []string

func selfCommand(exe string, args ...string) *exec.Cmd {
	return exec.Command(exe, append(append([]string{}, SelfArgs...), args...)...)
}

func Main() {
	if !flag.Parsed() {
		flag.Parse()
	}

	log.SetOutput(io.Discard) // akita reports refusals with log.Panic; the panic value is what matters

	if *helper != "" {
		runHelper(*helper, flag.Args())
		return
	}

	if *list {
		for _, id := range IDs() {
			fmt.Println(id)
		}

		return
	}

	if *replay != "" {
		os.Exit(replayMain(*replay))
	}

	p, ok := registry[*prop]
	if !ok {
		fmt.Fprintf(os.Stderr, "unknown property %q\n", *prop)
		os.Exit(2)
	}

	t := Tier(*tier)
	if t == "" {
		t = Tier(os.Getenv("VERIF_TIER"))
	}

	if t != Quick && t != Thorough {
		t = Quick
	}

	seed := uint64(1)
	s := *seedF

	if s == "" {
		s = os.Getenv("VERIF_SEED")
	}

	if s != "" {
		v, err := strconv.ParseUint(s, 10, 64)
		if err != nil {
			iv, err2 := strconv.ParseInt(s, 10, 64)
			if err2 != nil {
				fmt.Fprintf(os.Stderr, "bad seed %q\n", s)
				os.Exit(2)
			}

			v = uint64(iv)
		}

		seed = v
	}

	b := p.Quick
	if t == Thorough {
		b = p.Thorough
	}

	if *runs > 0 {
		b.Runs = *runs
	}

	if *wall > 0 {
		b.WallS = *wall
	}

	if b.CaseS == 0 {
		b.CaseS = 120
	}

	if *dump >= 0 {
		r := NewRand(Derive(seed, p.ID, uint64(*dump)))
		fmt.Println(string(p.Gen(r, t)))

		return
	}

	if *one >= 0 {
		os.Exit(runOne(p, t, seed, *one))
	}

	if *worker {
		os.Exit(workerMain(p, t, seed, b, *wi, *nw))
	}

	os.Exit(parentMain(p, t, seed, b, *workers))
}

var helpers = map[string]func(args []string){}

// RegisterHelper registers an internal sub-command (fresh-process executions
// needed by cross-process oracles).
func RegisterHelper(name string, f func(args []string)) { helpers[name] = f }

func runHelper(name string, args []string) {
	f, ok := helpers[name]
	if !ok {
		fmt.Fprintf(os.Stderr, "unknown helper %q\n", name)
		os.Exit(2)
	}

	f(args)
}

func newEnv(t Tier, tag string) (*Env, func()) {
	dir := filepath.Join(scratchRoot(), fmt.Sprintf("%d-%s", os.Getpid(), tag))
	_ = os.MkdirAll(dir, 0o755)
	exe, _ := os.Executable()

	return &Env{Tier: t, Scratch: dir, Exe: exe}, func() {
		_ = os.RemoveAll(dir)
		// memory-backed twin of the scratch directory (checkpoint checks put the
		// SQLite files of their simulations there)
		_ = os.RemoveAll(filepath.Join("/dev/shm", "verif-"+filepath.Base(dir)))
	}
}

// safeExec runs one case, turning a panic into a violation of oracle "panic".
func safeExec(p *erased, raw json.RawMessage, env *Env) (out Outcome, err error) {
	defer func() {
		if r := recover(); r != nil {
			if h, ok := r.(HarnessError); ok {
				err = fmt.Errorf("harness error: %s", string(h))
				return
			}

			stack := string(debug.Stack())
			site := panicSite(stack)
			out.Violation = &Violation{
				Oracle: "panic",
				Sig:    p.ID + ":panic:" + site,
				Detail: fmt.Sprintf("%v\n%s", r, trimStack(stack)),
			}
		}
	}()

	return p.Exec(raw, env)
}

// HarnessError is panicked by harness code for conditions that are the
// harness's own fault (never a property violation).
type HarnessError string

// panicSite extracts the first /repo frame of a stack (function name), so the
// signature of a panic names the akita call site, not a line of the harness.
func panicSite(stack string) string {
	lines := strings.Split(stack, "\n")
	for i := 0; i+1 < len(lines); i++ {
		if strings.Contains(lines[i+1], "/repo/") &&
			strings.HasPrefix(lines[i], "github.com/sarchlab/akita") {
			fn := lines[i]
			if k := strings.LastIndex(fn, "("); k > 0 {
				fn = fn[:k]
			}

			fn = strings.TrimPrefix(fn, "github.com/sarchlab/akita/v5/")

			return fn
		}
	}

	return "harness"
}

func trimStack(s string) string {
	lines := strings.Split(s, "\n")
	if len(lines) > 40 {
		lines = lines[:40]
	}

	return strings.Join(lines, "\n")
}

func runOne(p *erased, t Tier, seed uint64, idx int) int {
	env, done := newEnv(t, "one")
	defer done()

	r := NewRand(Derive(seed, p.ID, uint64(idx)))
	raw := p.Gen(r, t)
	fmt.Printf("case: %s\n", raw)

	out, err := safeExec(p, raw, env)
	if err != nil {
		fmt.Fprintln(os.Stderr, err)
		return 2
	}

	b, _ := json.MarshalIndent(out, "", " ")
	fmt.Println(string(b))

	if out.Violation != nil {
		return 1
	}

	return 0
}

func workerMain(p *erased, t Tier, seed uint64, b Budget, wi, nw int) int {
	env, done := newEnv(t, fmt.Sprintf("w%d", wi))
	defer done()

	start := time.Now()
	deadline := start.Add(time.Duration(b.WallS) * time.Second)
	enc := json.NewEncoder(os.Stdout)
	sum := workerSummary{
		Type: "summary", Worker: wi,
		Faults: map[string]int{}, Probes: map[string]int{}, InconclWhy: map[string]int{},
	}
	shapes := map[uint64]bool{}
	allShapes := map[uint64]bool{}
	nviol := 0
	seenKnown := map[string]bool{}

	var wdMu sync.Mutex

	wdIdx, wdStart := -1, time.Now()

	go func() {
		for {
			time.Sleep(time.Second)
			wdMu.Lock()
			idx, st := wdIdx, wdStart
			wdMu.Unlock()

			if idx >= 0 && time.Since(st) > time.Duration(b.CaseS)*time.Second {
				fmt.Fprintf(os.Stderr, "WATCHDOG property=%s run_index=%d exceeded %ds\n", p.ID, idx, b.CaseS)
				done()
				os.Exit(3)
			}
		}
	}()

	for idx := wi; idx < b.Runs; idx += nw {
		if time.Now().After(deadline) {
			sum.HitDeadline = true
			break
		}

		wdMu.Lock()
		wdIdx, wdStart = idx, time.Now()
		wdMu.Unlock()

		r := NewRand(Derive(seed, p.ID, uint64(idx)))
		raw := p.Gen(r, t)

		out, err := safeExec(p, raw, env)
		if err != nil {
			fmt.Fprintf(os.Stderr, "HARNESS property=%s run_index=%d: %v\n", p.ID, idx, err)
			done()

			return 2
		}

		sum.Evaluations++
		sum.SimTimePs += out.SimTimePs
		sum.Events += out.Events
		sum.Steps += out.Steps

		for k, v := range out.Faults {
			sum.Faults[k] += v
		}

		for k, v := range out.Probes {
			sum.Probes[k] += v
		}

		if out.Inconclusive != "" {
			sum.Inconclusive++
			sum.InconclWhy[out.Inconclusive]++
		}

		sum.Fingerprint ^= Hash64(fmt.Sprint(idx, "|", out.Shape, "|", out.Violation != nil, "|", out.Inconclusive))

		// determinism self-test aid: one line per run, to find the run whose shape
		// depends on which other runs shared its process
		if p := os.Getenv("VERIF_SHAPES"); p != "" {
			if f, err := os.OpenFile(p, os.O_APPEND|os.O_CREATE|os.O_WRONLY, 0o644); err == nil {
				shape := out.Shape
				if len(shape) > 120 {
					shape = shape[:120]
				}

				fmt.Fprintf(f, "%d %x %v %s %q\n", idx, Hash64(out.Shape), out.Violation != nil, out.Inconclusive, shape)
				f.Close()
			}
		}

		if out.Shape != "" {
			h := Hash64(out.Shape)
			if len(allShapes) < 1<<20 {
				allShapes[h] = true
			}

			if out.NonTrivial {
				sum.NonTrivial++

				if len(shapes) < 1<<20 {
					shapes[h] = true
				}
			}
		}

		if out.Sample != nil && len(sum.Samples) < 2 && out.NonTrivial {
			sum.Samples = append(sum.Samples, out.Sample)
		}

		if out.Violation != nil && matchKnown(p.ID, out.Violation) != nil {
			// a listed finding: report it once per worker, never let it stop the search
			sum.Probes["known-finding-hits"]++

			if seenKnown[out.Violation.Sig] {
				continue
			}

			seenKnown[out.Violation.Sig] = true
			nviol--
		}

		if out.Violation != nil {
			// widen the watchdog for shrinking
			wdMu.Lock()
			wdIdx = -1
			wdMu.Unlock()

			rf := shrinkAndSave(p, t, seed, idx, raw, out.Violation, env)
			_ = enc.Encode(workerViolation{
				Type: "violation", Worker: wi, RunIndex: idx,
				Violation: out.Violation, Replay: rf,
			})

			nviol++
			if nviol >= 3 {
				break
			}
		}
	}

	for h := range shapes {
		sum.Shapes = append(sum.Shapes, h)
	}

	sum.AllShapes = len(allShapes)
	sum.WallS = time.Since(start).Seconds()
	_ = enc.Encode(sum)

	return 0
}

// shrinkAndSave minimises a failing case (same oracle and signature must keep
// failing), writes the replay file and returns its path.
func shrinkAndSave(
	p *erased, t Tier, seed uint64, idx int,
	raw json.RawMessage, v *Violation, env *Env,
) string {
	best, bestV := raw, v
	log := &strings.Builder{}
	tries, accepted := 0, 0
	limit := time.Now().Add(90 * time.Second)
	env2 := *env
	env2.Replay = true

	if p.Shrink != nil {
		for progress := true; progress && time.Now().Before(limit); {
			progress = false

			for _, cand := range p.Shrink(best) {
				if time.Now().After(limit) || tries > 3000 {
					break
				}

				if bytes.Equal(cand, best) {
					continue
				}

				tries++

				out, err := safeExec(p, cand, &env2)
				if err != nil || out.Violation == nil {
					continue
				}

				if out.Violation.Sig != v.Sig {
					continue
				}

				best, bestV = cand, out.Violation
				accepted++
				progress = true

				break
			}
		}
	}

	fmt.Fprintf(log, "tried %d candidates, accepted %d; %d -> %d bytes",
		tries, accepted, len(raw), len(best))

	rf := ReplayFile{
		Property: p.ID, Seed: seed, RunIndex: idx, Tier: t,
		Shrunk: accepted > 0, ShrinkLog: log.String(),
		Violation: bestV, Case: best,
	}
	dir := filepath.Join(Home(), "replays")
	_ = os.MkdirAll(dir, 0o755)
	path := filepath.Join(dir, fmt.Sprintf("%s-%d-%d.json", p.ID, seed, idx))
	b, _ := json.MarshalIndent(rf, "", " ")
	_ = os.WriteFile(path, b, 0o644)

	return path
}

func replayMain(path string) int {
	b, err := os.ReadFile(path)
	if err != nil {
		fmt.Fprintln(os.Stderr, err)
		return 2
	}

	var rf ReplayFile
	if err := json.Unmarshal(b, &rf); err != nil {
		fmt.Fprintln(os.Stderr, err)
		return 2
	}

	p, ok := registry[rf.Property]
	if !ok {
		fmt.Fprintf(os.Stderr, "unknown property %q\n", rf.Property)
		return 2
	}

	env, done := newEnv(rf.Tier, "replay")
	defer done()

	env.Replay = true

	var out Outcome

	for try := 0; try < max(1, p.ReplayTries); try++ {
		out, err = safeExec(p, rf.Case, env)
		if err != nil {
			fmt.Fprintln(os.Stderr, err)
			return 2
		}

		if out.Violation != nil {
			break
		}
	}

	if out.Violation == nil {
		fmt.Printf("REPLAY-OK property=%s (no violation)\n", rf.Property)
		return 0
	}

	fmt.Printf("REPLAY-VIOLATION property=%s sig=%s\n%s\n", rf.Property,
		out.Violation.Sig, out.Violation.String())

	if kf := matchKnown(rf.Property, out.Violation); kf != nil {
		fmt.Printf("KNOWN-FINDING: property=%s %s\n", rf.Property, kf.What)
		return 0
	}

	fmt.Printf("VIOLATION property=%s replay=%s\n", rf.Property, path)

	return 1
}

func parentMain(p *erased, t Tier, seed uint64, b Budget, workersOverride int) int {
	start := time.Now()
	exe, _ := os.Executable()
	nw := p.Workers

	if workersOverride > 0 {
		nw = workersOverride
	}

	if nw <= 0 {
		nw = runtime.NumCPU()
	}

	if nw > b.Runs {
		nw = b.Runs
	}

	if nw < 1 {
		nw = 1
	}

	fmt.Printf("simcheck property=%s tier=%s seed=%d runs=%d workers=%d wall_budget=%ds\n",
		p.ID, t, seed, b.Runs, nw, b.WallS)

	type res struct {
		sum   *workerSummary
		viols []workerViolation
		err   error
		code  int
		errs  string
	}

	results := make([]res, nw)

	var wg sync.WaitGroup

	for i := 0; i < nw; i++ {
		wg.Add(1)

		go func(i int) {
			defer wg.Done()

			cmd := selfCommand(exe, "-worker", "-prop", p.ID, "-tier", string(t),
				"-seed", strconv.FormatUint(seed, 10), "-w", strconv.Itoa(i),
				"-nw", strconv.Itoa(nw), "-runs", strconv.Itoa(b.Runs),
				"-wall", strconv.Itoa(b.WallS))

			var stderr bytes.Buffer

			cmd.Stderr = &stderr

			so, err := cmd.StdoutPipe()
			if err != nil {
				results[i].err = err
				return
			}

			if err := cmd.Start(); err != nil {
				results[i].err = err
				return
			}

			// last resort against a worker whose own watchdog cannot run: the
			// parent kills it well after every budget has passed (reported as
			// harness trouble, never as a violation)
			killer := time.AfterFunc(time.Duration(b.WallS+4*b.CaseS+300)*time.Second, func() {
				fmt.Fprintf(os.Stderr, "WATCHDOG property=%s worker %d killed by the parent after all budgets passed\n", p.ID, i)
				_ = cmd.Process.Kill()
			})
			defer killer.Stop()

			sc := bufio.NewScanner(so)
			sc.Buffer(make([]byte, 1<<20), 1<<28)

			for sc.Scan() {
				line := sc.Bytes()

				var probe struct {
					Type string `json:"type"`
				}

				if json.Unmarshal(line, &probe) != nil {
					continue
				}

				switch probe.Type {
				case "summary":
					var s workerSummary
					if json.Unmarshal(line, &s) == nil {
						results[i].sum = &s
					}
				case "violation":
					var v workerViolation
					if json.Unmarshal(line, &v) == nil {
						results[i].viols = append(results[i].viols, v)
					}
				}
			}

			err = cmd.Wait()
			results[i].errs = stderr.String()

			if err != nil {
				results[i].err = err

				if ee, ok := err.(*exec.ExitError); ok {
					results[i].code = ee.ExitCode()
				}
			}
		}(i)
	}

	wg.Wait()

	agg := workerSummary{Faults: map[string]int{}, Probes: map[string]int{}, InconclWhy: map[string]int{}}
	shapes := map[uint64]bool{}

	var viols []workerViolation

	harnessTrouble := false

	for i, r := range results {
		if r.err != nil || r.sum == nil {
			harnessTrouble = true

			fmt.Fprintf(os.Stderr, "worker %d failed (code %d): %v\n%s\n", i, r.code, r.err, tail(r.errs, 4000))

			continue
		}

		s := r.sum
		agg.Evaluations += s.Evaluations
		agg.NonTrivial += s.NonTrivial
		agg.Inconclusive += s.Inconclusive
		agg.SimTimePs += s.SimTimePs
		agg.Events += s.Events
		agg.Steps += s.Steps
		agg.AllShapes += s.AllShapes
		agg.HitDeadline = agg.HitDeadline || s.HitDeadline
		agg.Fingerprint ^= s.Fingerprint

		for k, v := range s.Faults {
			agg.Faults[k] += v
		}

		for k, v := range s.Probes {
			agg.Probes[k] += v
		}

		for k, v := range s.InconclWhy {
			agg.InconclWhy[k] += v
		}

		for _, h := range s.Shapes {
			shapes[h] = true
		}

		if len(agg.Samples) < 3 {
			agg.Samples = append(agg.Samples, s.Samples...)
		}

		viols = append(viols, r.viols...)
	}

	sort.Slice(viols, func(i, j int) bool { return viols[i].RunIndex < viols[j].RunIndex })

	// Verify each distinct violation signature in a fresh process.
	seen := map[string]bool{}
	known := map[string]bool{}
	realViolations := 0

	for _, v := range viols {
		if seen[v.Violation.Sig] {
			continue
		}

		seen[v.Violation.Sig] = true

		code, outp := freshReplay(exe, v.Replay)

		switch {
		case code == 2:
			harnessTrouble = true

			fmt.Fprintf(os.Stderr, "replay of %s failed to run:\n%s\n", v.Replay, tail(outp, 3000))
		case strings.Contains(outp, "KNOWN-FINDING:"):
			for _, l := range strings.Split(outp, "\n") {
				if strings.HasPrefix(l, "KNOWN-FINDING:") && !known[l] {
					known[l] = true

					fmt.Println(l)
				}
			}
		case code == 1:
			realViolations++

			fmt.Printf("violation run_index=%d %s\n", v.RunIndex, v.Violation.String())
			fmt.Printf("VIOLATION property=%s replay=%s\n", p.ID, v.Replay)
		default:
			// did not reproduce in a fresh process: harness nondeterminism
			harnessTrouble = true

			fmt.Fprintf(os.Stderr,
				"NONDETERMINISTIC: violation %q at run_index=%d did not reproduce from %s\n%s\n",
				v.Violation.Sig, v.RunIndex, v.Replay, tail(outp, 2000))
		}
	}

	wallS := time.Since(start).Seconds()

	if !harnessTrouble || agg.Evaluations > 0 {
		writeEvidence(p, t, seed, &agg, len(shapes), nw, wallS, realViolations, known)
	}

	fmt.Printf("summary property=%s evaluations=%d distinct_nontrivial=%d inconclusive=%d violations=%d known=%d wall=%.1fs fingerprint=%016x\n",
		p.ID, agg.Evaluations, len(shapes), agg.Inconclusive, realViolations, len(known), wallS, agg.Fingerprint)

	if realViolations > 0 {
		return 1
	}

	if harnessTrouble {
		return 2
	}

	if agg.Evaluations > 0 && agg.Inconclusive*2 > agg.Evaluations {
		fmt.Fprintf(os.Stderr, "too many inconclusive runs (%d of %d): %v\n",
			agg.Inconclusive, agg.Evaluations, agg.InconclWhy)

		return 2
	}

	return 0
}

func tail(s string, n int) string {
	if len(s) <= n {
		return s
	}

	return s[len(s)-n:]
}

func freshReplay(exe, path string) (int, string) {
	cmd := selfCommand(exe, "-replay", path)

	var buf bytes.Buffer

	cmd.Stdout = &buf
	cmd.Stderr = &buf
	err := cmd.Run()
	code := 0

	if err != nil {
		if ee, ok := err.(*exec.ExitError); ok {
			code = ee.ExitCode()
		} else {
			code = 2
		}
	}

	return code, buf.String()
}

// RunFresh executes this binary's helper in a fresh process and returns stdout.
func RunFresh(env *Env, helper string, stdin []byte, extraEnv []string, args ...string) ([]byte, error) {
	a := append([]string{"-helper", helper}, args...)
	cmd := selfCommand(env.Exe, a...)
	cmd.Stdin = bytes.NewReader(stdin)
	cmd.Env = append(os.Environ(), extraEnv...)

	var out, errb bytes.Buffer

	cmd.Stdout = &out
	cmd.Stderr = &errb

	if err := cmd.Run(); err != nil {
		return out.Bytes(), fmt.Errorf("%w: %s", err, tail(errb.String(), 2000))
	}

	return out.Bytes(), nil
}
