// Package sched is the deterministic goroutine scheduler of the E-conc engine.
// The system under test runs on real goroutines inside a testing/synctest
// bubble. Every goroutine parks at yield points (woven into the akita sources by
// tools/weave, and placed by hand in harness code); the scheduler waits for
// quiescence (synctest.Wait: every goroutine durably blocked), then releases
// exactly one parked goroutine chosen by the run's decision source. Mutex
// ownership and condition variables are modelled, so a goroutine can be
// preempted while holding a lock and no goroutine ever blocks on a real
// sync.Mutex (which synctest would not see as durably blocked).
//
// One decision list = one exactly repeatable execution.
package sched

import (
	"bytes"
	"fmt"
	"runtime"
	"sort"
	"strconv"
	"sync"
	"testing"
	"testing/synctest"
)

type lockState struct {
	writer  bool
	readers int
}

type gor struct {
	id        int64
	name      string
	ch        chan struct{}
	site      string
	wantLock  any
	write     bool
	waitCond  *sync.Cond
	signalled bool
}

// Sched is one scheduled execution.
type Sched struct {
	mu            sync.Mutex
	active        bool
	rootID        int64
	gs            map[int64]*gor
	parked        []*gor
	named         int
	locks         map[any]*lockState
	Choose        func(n int) int // decision source: returns an index in [0, n)
	Runnable      []string        // names of the runnable goroutines at the current decision (sorted); for choosers
	Last          string          // name of the goroutine that ran the previous step
	Decided       []int           // the decisions taken (index into the name-sorted runnable list)
	Steps         int
	MaxSteps      int
	YieldOnUnlock bool   // a lock release is a scheduling point too
	MapSeed       uint64 // non-zero: order of the woven map ranges (0: sorted keys)
	mapDraws      uint64
	Deadlock      string // non-empty: no goroutine could run although work remained
	CapHit        bool
	Trace         []string // "name@site" per step (kept short)
	KeepTrace     bool
	Finished      func() bool // workload-complete predicate, evaluated at quiescence
	After         func()      // optional: runs on the root goroutine, inside the bubble, after the loop
	Sites         map[string]int
}

var current *Sched

// Current returns the scheduler of the running execution (nil outside one).
func Current() *Sched { return current }

func goid() int64 {
	var buf [64]byte

	n := runtime.Stack(buf[:], false)
	b := buf[:n]
	b = b[len("goroutine "):]
	b = b[:bytes.IndexByte(b, ' ')]
	id, _ := strconv.ParseInt(string(b), 10, 64)

	return id
}

// Yield parks the calling goroutine until the scheduler releases it.
func Yield(site string) {
	if s := current; s != nil {
		s.park(site, nil, false, nil)
	}
}

// Lock is called before a real Lock/RLock of m: it parks until the model says m
// can be taken, and takes it in the model.
func Lock(m any, site string, write bool) {
	if s := current; s != nil {
		s.park(site, m, write, nil)
	}
}

// Unlock is called after a real Unlock/RUnlock of m.
func Unlock(m any, write bool) {
	s := current
	if s == nil || !s.active || goid() == s.rootID {
		return
	}

	s.mu.Lock()
	s.release(m, write)
	s.mu.Unlock()

	// releasing a lock is a point where a real scheduler can switch as well: what
	// follows the critical section then races with everybody else
	if s.YieldOnUnlock {
		s.park("after-unlock", nil, false, nil)
	}
}

// UnlockYields derives from the run's seed whether lock releases are scheduling
// points in that run (half of the runs: the other half keeps longer stretches).
func UnlockYields(seed uint64) bool { return (seed>>17)&1 == 1 }

func (s *Sched) release(m any, write bool) {
	ls := s.locks[m]
	if ls == nil {
		return
	}

	if write {
		ls.writer = false
	} else if ls.readers > 0 {
		ls.readers--
	}
}

// CondWait models c.Wait(): releases c.L, parks until a broadcast, re-takes c.L.
func CondWait(c *sync.Cond) {
	s := current
	if s == nil || !s.active || goid() == s.rootID {
		c.Wait()
		return
	}

	s.mu.Lock()
	s.release(c.L, true)
	s.mu.Unlock()
	c.L.Unlock()
	s.park("cond-wait", nil, false, c)
	c.L.Lock()
}

// CondBroadcast models c.Broadcast() / c.Signal().
func CondBroadcast(c *sync.Cond) {
	s := current
	if s == nil || !s.active || goid() == s.rootID {
		c.Broadcast()
		return
	}

	s.mu.Lock()

	for _, g := range s.parked {
		if g.waitCond == c {
			g.signalled = true
		}
	}

	s.mu.Unlock()
}

func (s *Sched) park(site string, m any, write bool, c *sync.Cond) {
	if !s.active {
		return
	}

	id := goid()
	if id == s.rootID {
		return
	}

	s.mu.Lock()

	g := s.gs[id]
	if g == nil {
		g = &gor{id: id, ch: make(chan struct{})}
		s.gs[id] = g
	}

	g.site, g.wantLock, g.write, g.waitCond, g.signalled = site, m, write, c, false
	s.parked = append(s.parked, g)
	s.mu.Unlock()
	<-g.ch
}

// Go starts a harness goroutine that is under the scheduler from its first instruction.
func (s *Sched) Go(name string, f func()) {
	go func() {
		s.park("start:"+name, nil, false, nil)
		f()
	}()
}

func (s *Sched) canRun(g *gor) bool {
	switch {
	case g.waitCond != nil:
		if !g.signalled {
			return false
		}

		ls := s.locks[g.waitCond.L]

		return ls == nil || (!ls.writer && ls.readers == 0)
	case g.wantLock != nil:
		ls := s.locks[g.wantLock]
		if ls == nil {
			return true
		}

		if g.write {
			return !ls.writer && ls.readers == 0
		}

		return !ls.writer
	}

	return true
}

func (s *Sched) take(m any, write bool) {
	ls := s.locks[m]
	if ls == nil {
		ls = &lockState{}
		s.locks[m] = ls
	}

	if write {
		ls.writer = true
	} else {
		ls.readers++
	}
}

// Run executes body under the scheduler inside a synctest bubble. body runs on
// the root goroutine and must only start the workload (s.Go …) and return; the
// scheduling loop then runs until nothing is parked.
func Run(t *testing.T, s *Sched, body func(s *Sched)) {
	s.gs = map[int64]*gor{}
	s.locks = map[any]*lockState{}
	s.Sites = map[string]int{}

	if s.MaxSteps == 0 {
		s.MaxSteps = 20000
	}

	func() {
		defer func() {
			// leaving a bubble with goroutines still blocked panics; that state has
			// already been reported as a deadlock by the loop below
			_ = recover()
		}()

		synctest.Test(t, func(t *testing.T) {
			s.rootID = goid()
			current = s
			s.active = true

			defer func() {
				s.active = false
				current = nil
			}()

			body(s)
			s.loop()

			if s.After != nil && s.Deadlock == "" && !s.CapHit {
				s.After()
			}
		})
	}()

	current = nil
}

func (s *Sched) loop() {
	for {
		synctest.Wait()
		s.mu.Lock()

		// name newcomers canonically: by the site of their first park
		var fresh []*gor

		for _, g := range s.parked {
			if g.name == "" {
				fresh = append(fresh, g)
			}
		}

		sort.SliceStable(fresh, func(i, j int) bool { return fresh[i].site < fresh[j].site })

		for _, g := range fresh {
			s.named++
			g.name = fmt.Sprintf("g%04d", s.named)
		}

		var runnable []*gor

		for _, g := range s.parked {
			if s.canRun(g) {
				runnable = append(runnable, g)
			}
		}

		if len(runnable) == 0 {
			if len(s.parked) > 0 || (s.Finished != nil && !s.Finished()) {
				var where []string
				for _, g := range s.parked {
					where = append(where, g.name+"@"+g.site)
				}

				sort.Strings(where)
				s.Deadlock = fmt.Sprintf("no goroutine can run; parked: %v", where)
			}

			s.mu.Unlock()

			return
		}

		sort.Slice(runnable, func(i, j int) bool { return runnable[i].name < runnable[j].name })

		k := 0
		if len(runnable) > 1 {
			s.Runnable = s.Runnable[:0]
			for _, g := range runnable {
				s.Runnable = append(s.Runnable, g.name)
			}

			k = s.Choose(len(runnable))
			if k < 0 || k >= len(runnable) {
				k = 0
			}

			s.Decided = append(s.Decided, k) // only real choices are decisions
		}

		g := runnable[k]
		s.Last = g.name

		for i, p := range s.parked {
			if p == g {
				s.parked = append(s.parked[:i], s.parked[i+1:]...)
				break
			}
		}

		switch {
		case g.waitCond != nil:
			s.take(g.waitCond.L, true)
		case g.wantLock != nil:
			s.take(g.wantLock, g.write)
		}

		s.Steps++
		s.Sites[g.site]++

		if s.KeepTrace && len(s.Trace) < 400 {
			s.Trace = append(s.Trace, g.name+"@"+g.site)
		}

		if s.Steps > s.MaxSteps {
			s.CapHit = true
			s.mu.Unlock()

			return
		}

		s.mu.Unlock()
		g.ch <- struct{}{}
	}
}

// ListChooser returns a decision source that plays back the given decisions and
// then falls back to next (or to "lowest-numbered runnable goroutine" when next is nil).
func ListChooser(list []int, next func(n int) int) func(n int) int {
	i := 0

	return func(n int) int {
		if i < len(list) {
			k := list[i]
			i++

			if k < n {
				return k
			}

			return 0
		}

		if next != nil {
			return next(n)
		}

		return 0
	}
}

// MixedChooser returns a decision source whose strategy is itself drawn from the
// seed: uniform random choice, sticky choice (keep running the same goroutine
// with high probability: long uninterrupted stretches) or PCT-style priorities
// (run the highest-priority runnable goroutine; at a few random steps the
// running goroutine drops to the lowest priority). All three are pure functions
// of the seed and of the runnable sets, so a run replays from its decision list.
func MixedChooser(seed uint64, s *Sched) func(n int) int {
	x := seed
	next := func() uint64 {
		x += 0x9e3779b97f4a7c15
		z := x
		z = (z ^ (z >> 30)) * 0xbf58476d1ce4e5b9
		z = (z ^ (z >> 27)) * 0x94d049bb133111eb

		return z ^ (z >> 31)
	}
	intn := func(n int) int { return int(next() % uint64(n)) }

	switch intn(3) {
	case 0:
		return intn
	case 1:
		stay := []int{70, 85, 95, 98}[intn(4)]

		return func(n int) int {
			if intn(100) < stay {
				for i, name := range s.Runnable {
					if name == s.Last {
						return i
					}
				}
			}

			return intn(n)
		}
	default:
		prio := map[string]int{}
		low := 0
		changes := map[int]bool{}
		horizon := []int{200, 600, 2000}[intn(3)]

		for i := 0; i < 1+intn(3); i++ {
			changes[intn(horizon)] = true
		}

		decision := 0

		return func(n int) int {
			decision++

			if changes[decision] {
				low--
				prio[s.Last] = low
			}

			if intn(16) == 0 {
				return intn(n) // keeps spinning waiters from starving everyone else
			}

			best, bestP := 0, -1<<62

			for i, name := range s.Runnable {
				p, ok := prio[name]
				if !ok {
					p = 1 + intn(1000)
					prio[name] = p
				}

				if p > bestP {
					best, bestP = i, p
				}
			}

			return best
		}
	}
}

// MapOrder is the hook behind the woven map ranges: the order in which the keys
// (sorted) of a map of n entries are visited. It is a pure function of the run's
// MapSeed and of how many map ranges came before, so it replays.
func MapOrder(n int) []int {
	perm := make([]int, n)
	for i := range perm {
		perm[i] = i
	}

	s := current
	if s == nil || s.MapSeed == 0 {
		return perm
	}

	s.mu.Lock()
	s.mapDraws++
	x := s.MapSeed + s.mapDraws*0x9e3779b97f4a7c15
	s.mu.Unlock()

	for i := n - 1; i > 0; i-- {
		x += 0x9e3779b97f4a7c15
		z := x
		z = (z ^ (z >> 30)) * 0xbf58476d1ce4e5b9
		z = (z ^ (z >> 27)) * 0x94d049bb133111eb
		z ^= z >> 31
		j := int(z % uint64(i+1))
		perm[i], perm[j] = perm[j], perm[i]
	}

	return perm
}
