//go:build woven

package econc

import (
	"encoding/json"
	"fmt"
	"net/http"
	"net/http/httptest"
	"net/url"
	"os"
	"runtime"
	"strings"

	"github.com/sarchlab/akita/v5/daisen2"
	"github.com/sarchlab/akita/v5/modeling"
	"github.com/sarchlab/akita/v5/monitoring2"
	"github.com/sarchlab/akita/v5/queueing"
	"github.com/sarchlab/akita/v5/timing"

	"verif/sim/kit"
	"verif/sim/sched"
)

func init() {
	modeling.VerifYield, modeling.VerifLock, modeling.VerifUnlock = sched.Yield, sched.Lock, sched.Unlock
	modeling.VerifCondWait, modeling.VerifCondBroadcast = sched.CondWait, sched.CondBroadcast
	monitoring2.VerifYield, monitoring2.VerifLock, monitoring2.VerifUnlock = sched.Yield, sched.Lock, sched.Unlock
	monitoring2.VerifCondWait, monitoring2.VerifCondBroadcast = sched.CondWait, sched.CondBroadcast
	daisen2.VerifWeaveHooks_httpapi(sched.Yield, sched.Lock, sched.Unlock, sched.CondWait, sched.CondBroadcast)
}

// MonReq is one live-monitor request.
type MonReq struct {
	G    int    `json:"g"`    // requester goroutine
	Kind string `json:"kind"` // pause continue state now tick component field buffers progress list
	Comp int    `json:"comp,omitempty"`
}

// MonCase is one monitored simulation.
type MonCase struct {
	Parallel  bool     `json:"parallel"`
	Procs     int      `json:"procs"`
	Budgets   []int    `json:"budgets"` // productive ticks per component
	Gs        int      `json:"gs"`
	Reqs      []MonReq `json:"reqs"`
	Seed      uint64   `json:"seed"`
	Decisions []int    `json:"decisions,omitempty"`
}

type pairState struct {
	X int
	Y int
}

// monComp is a ticking component with state the monitor can inspect: A/B and
// Pair.X/Pair.Y are equal whenever no tick handler of the component is running.
type monComp struct {
	*modeling.TickingComponent

	A    int
	Pair pairState
	Work queueing.Buffer[int]
	B    int
	// Table["k"] is replaced by a fresh slice twice per tick: {n, -1} in the
	// middle of the handler, {n, n} at its end.
	Table map[string][]int

	budget int
	done   int
	times  []uint64
	extra  int // ticks delivered after the budget was used up (monitor tick requests)
	w      *monWorld
}

type monWorld struct {
	c       *MonCase
	eng     timing.Engine
	comps   []*monComp
	bar     *daisen2.ProgressBar
	total   uint64
	V       *kit.Violation
	known   *kit.Violation
	runDone bool
	gDone   int
	busy    int
	reqsRun int
	torn    int
	slow    int
}

type slowWriter struct {
	*httptest.ResponseRecorder
	slowness int // scheduling points per write
}

func (s slowWriter) Write(p []byte) (int, error) {
	for i := 0; i < s.slowness; i++ {
		sched.Yield("monitor-response:write")
	}

	return s.ResponseRecorder.Write(p)
}

func (w *monWorld) kind() string {
	if w.c.Parallel {
		return "parallel"
	}

	return "serial"
}

func (w *monWorld) fail(sig, f string, a ...any) {
	if w.V == nil {
		w.V = kit.Violate("monitor", sig, f, a...)
	}
}

func (c *monComp) Tick() bool {
	if c.done >= c.budget {
		c.extra++
		return false
	}

	w := c.w
	w.busy++
	c.A++
	c.Pair.X++
	c.Table["k"] = []int{c.A, -1}
	for i := 0; i < 5; i++ {
		sched.Yield("tick:after-first-half") // a handler that takes a while between its two updates
	}

	c.Work.PushTyped(c.done)
	w.bar.MoveInProgressToFinished(1)
	sched.Yield("tick:before-second-half")
	c.Work.Pop()
	c.B++
	c.Pair.Y++
	c.Table["k"] = []int{c.B, c.B}
	c.times = append(c.times, uint64(w.eng.CurrentTime()))
	c.done++
	w.busy--

	return c.done < c.budget
}

var reqKinds = []string{"pause", "continue", "state", "now", "tick", "tick", "component", "component", "field", "field", "page", "page", "buffers", "progress", "progress", "list"}

func genC40(r *kit.Rand, tier kit.Tier) MonCase {
	c := MonCase{Parallel: r.Chance(1, 2), Procs: r.Range(2, 3), Gs: r.Range(1, 2), Seed: r.Uint64()}

	for i := 0; i < r.Range(1, 3); i++ {
		c.Budgets = append(c.Budgets, r.Range(1, 5))
	}

	n := r.Range(1, 7)
	if tier == kit.Thorough {
		n = r.Range(1, 14)
	}

	for i := 0; i < n; i++ {
		c.Reqs = append(c.Reqs, MonReq{G: r.Intn(c.Gs), Kind: reqKinds[r.Intn(len(reqKinds))], Comp: r.Intn(len(c.Budgets))})
	}

	// one run in three: a user who pauses, looks around and continues, while a second
	// client (a dashboard that polls) inspects components the whole time
	if r.Chance(1, 3) {
		c.Gs, c.Reqs = 2, nil
		inspect := []string{"component", "field", "page", "progress", "state"}

		for round := 0; round < r.Range(1, 3); round++ {
			c.Reqs = append(c.Reqs, MonReq{G: 0, Kind: "pause"})

			for i := 0; i < r.Range(0, 2); i++ {
				c.Reqs = append(c.Reqs, MonReq{G: 0, Kind: inspect[r.Intn(len(inspect))], Comp: r.Intn(len(c.Budgets))})
			}

			c.Reqs = append(c.Reqs, MonReq{G: 0, Kind: "continue"})
		}

		for i := 0; i < r.Range(3, 8); i++ {
			c.Reqs = append(c.Reqs, MonReq{G: 1, Kind: inspect[r.Intn(3)], Comp: r.Intn(len(c.Budgets))})
		}
	}

	return c
}

// request issues one monitor request and checks what the response shows.
func (w *monWorld) request(h http.Handler, q MonReq) {
	name := fmt.Sprintf("Comp%d", q.Comp)
	path := map[string]string{
		"pause": "/api/pause", "continue": "/api/continue", "state": "/api/engine/state", "now": "/api/now",
		"tick": "/api/tick/" + name, "component": "/api/component/" + name,
		"field":   "/api/field/" + url.PathEscape(fmt.Sprintf(`{"comp_name":%q,"field_name":"Pair"}`, name)),
		"page":    "/api/field/" + url.PathEscape(fmt.Sprintf(`{"comp_name":%q,"field_name":"Table.k"}`, name)) + "?slice_offset=0&slice_limit=10",
		"buffers": "/api/hangdetector/buffers?sort=level", "progress": "/api/progress", "list": "/api/list_components",
	}[q.Kind]

	rec := httptest.NewRecorder()

	var rw http.ResponseWriter = rec
	if slowness := []int{0, 1, 4, 16}[(w.c.Seed>>18)&3]; slowness > 0 {
		// a client that takes the response slowly: every write of the handler is a
		// scheduling point (the component serializer reads a value, writes it, reads
		// the next one, ...)
		rw = slowWriter{rec, slowness}
		w.slow++
	}

	h.ServeHTTP(rw, httptest.NewRequest(http.MethodGet, path, nil))
	w.reqsRun++
	body := rec.Body.String()

	if rec.Code != 200 {
		w.fail("C40:request-fails["+q.Kind+"]", "GET %s -> %d %s", path, rec.Code, head1(body))
		return
	}

	switch q.Kind {
	case "component", "field":
		var doc struct {
			R    string `json:"r"`
			Dict map[string]struct {
				V any `json:"v"`
			} `json:"dict"`
		}

		_ = json.Unmarshal([]byte(body), &doc)

		field := func(n string) (int, bool) {
			root, isStruct := doc.Dict[doc.R].V.(map[string]any)
			if !isStruct {
				return 0, false
			}

			id, _ := root[n].(string)
			v, isNum := doc.Dict[id].V.(float64)

			return int(v), isNum
		}

		var a, b int

		var ok bool

		if q.Kind == "component" {
			a, ok = field("A")
			b, _ = field("B")
		} else {
			a, ok = field("X")
			b, _ = field("Y")
		}

		if !ok {
			panic(kit.HarnessError("cannot find the inspected fields in the monitor response: " + head1(body)))
		}

		if a != b {
			w.torn++
			v := kit.Violate("monitor", "C40:inspection-sees-handler-midway["+w.kind()+"]", "GET %s returned the component with its two halves at %d and %d: the inspection ran while a tick handler of %s was between its two updates (%s engine)", path, a, b, name, w.kind())

			if w.c.Parallel {
				w.fail(v.Sig, "%s", v.Detail)
			} else if w.known == nil {
				w.known = v
			}
		}
	case "page":
		var doc struct {
			Dict map[string]struct {
				V any `json:"v"`
			} `json:"dict"`
		}

		_ = json.Unmarshal([]byte(body), &doc)
		a, okA := doc.Dict["1"].V.(float64)
		b, okB := doc.Dict["2"].V.(float64)

		if !okA || !okB {
			panic(kit.HarnessError("cannot find the two slice elements in the paged monitor response: " + head1(body)))
		}

		if a != b {
			w.torn++
			v := kit.Violate("monitor", "C40:inspection-sees-handler-midway["+w.kind()+"]", "GET %s returned the slice [%v %v], which the component holds only in the middle of a tick handler (%s engine)", path, a, b, w.kind())

			if w.c.Parallel {
				w.fail(v.Sig, "%s", v.Detail)
			} else if w.known == nil {
				w.known = v
			}
		}
	case "progress":
		var bars []struct {
			Total, Finished, InProgress uint64
		}

		var raw []map[string]any

		if err := json.Unmarshal([]byte(body), &raw); err != nil {
			panic(kit.HarnessError("progress response is not JSON: " + head1(body)))
		}

		for _, m := range raw {
			f, _ := m["finished"].(float64)
			p, _ := m["in_progress"].(float64)
			bars = append(bars, struct{ Total, Finished, InProgress uint64 }{w.total, uint64(f), uint64(p)})
		}

		for _, b := range bars {
			if b.Finished+b.InProgress != b.Total {
				w.fail("C40:progress-read-midway", "GET /api/progress returned finished=%d in_progress=%d of %d: read while a handler was moving an item from one counter to the other under the bar's lock", b.Finished, b.InProgress, b.Total)
			}
		}
	}
}

func head1(s string) string {
	s = strings.ReplaceAll(s, "\n", " ")
	if len(s) > 300 {
		s = s[:300]
	}

	return s
}

func runMon(c *MonCase, reqs []MonReq) (*monWorld, *sched.Sched, any) {
	w := &monWorld{c: c}
	s := &sched.Sched{MaxSteps: 120000, KeepTrace: os.Getenv("VERIF_C40_TRACE") != ""}
	s.YieldOnUnlock = sched.UnlockYields(c.Seed)
	s.Choose = sched.ListChooser(c.Decisions, sched.MixedChooser(c.Seed, s))

	if c.Decisions != nil {
		s.Choose = sched.ListChooser(c.Decisions, nil)
	}

	gs := c.Gs
	if len(reqs) == 0 {
		gs = 0
	}

	s.Finished = func() bool { return w.runDone && w.gDone == gs }

	var panicked any

	guard := func() {
		if r := recover(); r != nil && panicked == nil {
			if _, isHarness := r.(kit.HarnessError); isHarness {
				panic(r)
			}

			panicked = r
		}
	}

	sched.Run(T, s, func(s *sched.Sched) {
		timing.ResetIDGenerator()

		old := runtime.GOMAXPROCS(0)

		if c.Parallel {
			runtime.GOMAXPROCS(c.Procs)
			w.eng = timing.NewParallelEngine()
			runtime.GOMAXPROCS(old)
		} else {
			w.eng = timing.NewSerialEngine()
		}

		mon := monitoring2.NewMonitor()
		mon.RegisterEngine(w.eng)

		for i, b := range c.Budgets {
			mc := &monComp{budget: b, w: w, Table: map[string][]int{"k": {0, 0}}, Work: queueing.NewBuffer[int](fmt.Sprintf("Comp%d.Work", i), 4)}
			mc.TickingComponent = modeling.NewTickingComponent(fmt.Sprintf("Comp%d", i), w.eng, 1*timing.GHz, mc)
			w.comps = append(w.comps, mc)
			w.total += uint64(b)
			mon.RegisterComponent(mc)
		}

		w.bar = mon.CreateProgressBar("work", w.total)
		w.bar.IncrementInProgress(w.total)

		for _, mc := range w.comps {
			mc.TickLater()
		}

		h := mon.VerifLiveHandler()

		s.Go("run", func() {
			defer guard()
			defer func() { w.runDone = true }()

			_ = w.eng.Run()
		})

		for g := 0; g < gs; g++ {
			g := g
			s.Go(fmt.Sprintf("requester%d", g), func() {
				defer guard()
				defer func() { w.gDone++ }()

				for _, q := range reqs {
					if q.G == g {
						w.request(h, q)
						sched.Yield("requester:between-requests")
					}
				}

				// "once it is left running": the last requester to finish makes sure
				// the engine is not left paused
				if w.gDone == gs-1 {
					w.request(h, MonReq{Kind: "continue"})
				}
			})
		}
	})

	return w, s, panicked
}

func execC40(c MonCase, env *kit.Env) kit.Outcome {
	var out kit.Outcome

	defer timing.ResetIDGenerator()

	// the unmonitored run of the same simulation
	plain := c
	plain.Decisions = nil
	ref, rs, rp := runMon(&plain, nil)

	if rp != nil || rs.Deadlock != "" || rs.CapHit {
		panic(kit.HarnessError(fmt.Sprintf("the unmonitored reference run did not finish: panic=%v deadlock=%q cap=%v", rp, rs.Deadlock, rs.CapHit)))
	}

	w, s, panicked := runMon(&c, c.Reqs)
	out.Steps = uint64(s.Steps)

	if os.Getenv("VERIF_C40_TRACE") != "" {
		fmt.Fprintf(os.Stderr, "trace (%d steps, torn=%d): %v\n", s.Steps, w.torn, s.Trace)
	}

	ticks := 0
	for _, q := range c.Reqs {
		if q.Kind == "tick" {
			ticks++
		}
	}

	tickTag := ""
	if ticks > 0 {
		tickTag = ",with-tick-requests"
	}

	switch {
	case s.CapHit:
		out.Inconclusive = "step-cap"
		return out
	case w.V != nil:
		out.Violation = w.V
	case panicked != nil:
		out.Violation = kit.Violate("monitor", "C40:monitored-run-panics["+w.kind()+tickTag+"]", "the monitored simulation panicked: %v", panicked)
	case s.Deadlock != "":
		out.Violation = kit.Violate("monitor", "C40:monitored-run-stuck["+w.kind()+tickTag+"]", "the monitored simulation stopped making progress after the requests ended: %s", s.Deadlock)
	default:
		for i, mc := range w.comps {
			rc := ref.comps[i]
			if fmt.Sprint(mc.times) != fmt.Sprint(rc.times) || mc.A != rc.A || mc.B != rc.B {
				out.Violation = kit.Violate("monitor", "C40:outcome-differs["+w.kind()+tickTag+"]", "component Comp%d made its productive ticks at %v (A=%d B=%d) in the monitored run and at %v (A=%d B=%d) unmonitored (%s engine, %d requests of which %d tick requests)", i, mc.times, mc.A, mc.B, rc.times, rc.A, rc.B, w.kind(), len(c.Reqs), ticks)
				break
			}
		}
	}

	if out.Violation == nil && w.known != nil {
		out.Violation = w.known
	}

	if out.Violation != nil {
		return out
	}

	out.Events = uint64(w.total)
	out.Shape = fmt.Sprint(c.Parallel, c.Procs, c.Budgets, s.Decided)
	out.NonTrivial = countChoices(s) >= 3 && w.reqsRun >= 1
	out.Probe("scheduler-decisions-with-choice", countChoices(s))
	out.Probe("requests-issued", w.reqsRun)
	out.Fault("monitor-request-while-running", w.reqsRun)
	out.Fault("slow-client-response", w.slow)
	out.Sample = map[string]any{"engine": w.kind(), "components": len(c.Budgets), "requests": len(c.Reqs), "scheduler_steps": s.Steps}

	return out
}

func init() {
	kit.Register(kit.Spec[MonCase]{
		ID: "C40", Level: "exploration",
		Rule: "a real Monitor (monitor.go woven, routes reached through the verif in-process handler) on a real serial or parallel engine running 1-3 real ticking components whose tick handler updates two halves of their state with yield points in between, moves an item of a shared progress bar and pushes/pops a buffer; 1-2 requester goroutines issue generated sequences of pause/continue/state/now/tick/component/field/buffers/progress/list requests under the seeded scheduler; " +
			"oracles: an inspection response never shows the two halves unequal, a progress response never shows finished+in_progress != total, no request fails, nothing panics or gets stuck, and after a final continue every component makes exactly the productive ticks, at the same virtual times and with the same final state, as the unmonitored run of the same simulation; distinct = decision list; non-trivial = >=3 real scheduling choices and >=1 request",
		Assumptions: []string{"word-sized unsynchronised reads whose value cannot be seen torn (/api/now, buffer levels) are not judged: the scheduler is sequentially consistent, and the Go race detector sees every hand-over of the token as synchronisation", "profile, trace-control, resource and static routes are not exercised (they do not touch simulation state)"},
		Real:        []string{"monitoring2/monitor.go (woven)", "timing/serialengine.go, parallelengine.go, eventqueue.go (woven)", "modeling/ticker.go (woven)", "daisen2/internal/httpapi/progress.go (woven)", "queueing.Buffer", "goseth serializer", "net/http mux + httptest recorder"},
		Stubs:       []string{"requester goroutines instead of HTTP clients on a socket", "seeded scheduler"},
		FaultKinds:  []string{"monitor-request-while-running", "slow-client-response"},
		Quick:       kit.Budget{Runs: 4000, WallS: 120, CaseS: 120},
		Thorough:    kit.Budget{Runs: 200000, WallS: 1500, CaseS: 300},
		Gen:         genC40, Exec: execC40,
		Shrink: func(c MonCase) []MonCase {
			var out []MonCase

			for _, l := range kit.ListShrinks(c.Reqs) {
				q := c
				q.Reqs, q.Decisions = l, nil
				out = append(out, q)
			}

			if len(c.Budgets) > 1 {
				q := c
				q.Budgets, q.Decisions = c.Budgets[:len(c.Budgets)-1], nil
				ok := true

				for _, r := range q.Reqs {
					if r.Comp >= len(q.Budgets) {
						ok = false
					}
				}

				if ok {
					out = append(out, q)
				}
			}

			for i, b := range c.Budgets {
				if b > 1 {
					q := c
					q.Budgets = append([]int(nil), c.Budgets...)
					q.Budgets[i]--
					q.Decisions = nil
					out = append(out, q)
				}
			}

			return out
		},
	})
}
