//go:build woven

package econc

import (
	"database/sql"
	"fmt"
	"os"
	"path/filepath"
	"sort"
	"strings"

	_ "github.com/glebarez/go-sqlite"
	"github.com/sarchlab/akita/v5/datarecording"

	"verif/sim/kit"
	"verif/sim/sched"
)

func init() {
	datarecording.VerifYield = sched.Yield
	datarecording.VerifMapOrder = sched.MapOrder
	datarecording.VerifLock = sched.Lock
	datarecording.VerifUnlock = sched.Unlock
	datarecording.VerifCondWait = sched.CondWait
	datarecording.VerifCondBroadcast = sched.CondBroadcast
}

// three table shapes over the allowed field kinds
type rowA struct {
	ID   int
	Name string
	Val  float64
	Flag bool
}

type rowB struct {
	Key   uint64
	Place string `akita_data:"location"`
	Dst   string `akita_data:"location"`
	Note  string `akita_data:"ignore"`
	Small int8
	U8    uint8
	Idx   int32 `akita_data:"index"`
}

type rowC struct {
	S    string
	N    int64
	Loc  string `akita_data:"location"`
	F32  float32
	U16  uint16
	Uniq int `akita_data:"unique"`
}

type recOp struct {
	G     int    `json:"g"` // goroutine (0 in sequential mode)
	Flush bool   `json:"flush,omitempty"`
	Table int    `json:"table,omitempty"`
	Seed  uint64 `json:"seed,omitempty"`
}

type recCase struct {
	Conc      bool    `json:"conc"`
	Gs        int     `json:"gs"`
	Batch     int     `json:"batch"`
	Ops       []recOp `json:"ops"`
	SchedSeed uint64  `json:"sched_seed"`
	Decisions []int   `json:"decisions,omitempty"`
}

var hostile = []string{"", "plain", "0042", "1e3", "007", "12", "012", " 5", "0x10", "1.0", "-0", "+7", "NaN", "9223372036854775808", "it's", `"double"`, "semi;colon", "unicode é漢🙂", "percent%s", "new\nline", "back\\slash", "NULL", "--comment", "x' OR '1'='1"}

func mkRow(table int, n int, seed uint64) any {
	r := kit.NewRand(seed)
	s := hostile[r.Intn(len(hostile))]
	locs := []string{"GPU[0].Core", "GPU[1].L2", "it's.here", "漢.Port", "", "12", "012", "007", "1e3", "7"}

	switch table {
	case 0:
		return rowA{ID: []int{n, -n, 1 << 40, -(1 << 62)}[r.Intn(4)] + n, Name: s, Val: []float64{0, 1.5, -2.25e300, 1e-300}[r.Intn(4)], Flag: r.Bool()}
	case 1:
		return rowB{Key: []uint64{0, 1, 1 << 40, 1<<63 - 1 - uint64(n), 1<<63 - 1 - uint64(n), 1<<64 - 1 - uint64(n)}[r.Intn(5+btoi(r.Chance(1, 8)))] + uint64(n), Place: locs[r.Intn(len(locs))], Dst: locs[r.Intn(len(locs))], Note: "ignored " + s, Small: int8(r.Intn(256) - 128), U8: uint8(r.Intn(256)), Idx: int32(r.Intn(5))}
	default:
		return rowC{S: s, N: []int64{0, -1, 1<<63 - 1, -(1 << 63)}[r.Intn(4)], Loc: locs[r.Intn(len(locs))], F32: float32(r.Intn(100)) / 4, U16: uint16(r.Intn(65536)), Uniq: n}
	}
}

func genC35(r *kit.Rand, tier kit.Tier) recCase {
	c := recCase{Conc: r.Chance(1, 2), Gs: r.Range(2, 4), Batch: r.PickInt(1, 2, 3, 7, 100000), SchedSeed: r.Uint64()}
	n := r.Range(1, 25)

	if tier == kit.Thorough {
		n = r.Range(1, 120)
	}

	if !c.Conc {
		c.Gs = 1
	}

	for i := 0; i < n; i++ {
		op := recOp{G: r.Intn(c.Gs)}
		if r.Chance(1, 6) {
			op.Flush = true
		} else {
			op.Table, op.Seed = r.Intn(3), r.Uint64()
		}

		c.Ops = append(c.Ops, op)
	}

	return c
}

var recSeq int

func execC35(c recCase, env *kit.Env) kit.Outcome {
	var out kit.Outcome

	recSeq++
	dir := filepath.Join("/dev/shm", "verif-"+filepath.Base(env.Scratch))
	_ = os.MkdirAll(dir, 0o755)
	path := filepath.Join(dir, fmt.Sprintf("rec%d", recSeq))

	defer os.Remove(path + ".sqlite3")

	want := [3][]string{}
	names := []string{"ta", "tb", "tc"}

	var rec datarecording.DataRecorder

	var closeErr error

	setup := func() {
		rec = datarecording.NewDataRecorder(path)
		rec.CreateTable("ta", rowA{})
		rec.CreateTable("tb", rowB{})
		rec.CreateTable("tc", rowC{})
		datarecording.VerifSetBatchSize(rec, c.Batch)
	}
	do := func(i int, op recOp) {
		if op.Flush {
			rec.Flush()
			return
		}

		rec.InsertData(names[op.Table], mkRow(op.Table, i+1, op.Seed))
	}

	for i, op := range c.Ops {
		if !op.Flush {
			want[op.Table] = append(want[op.Table], canon(mkRow(op.Table, i+1, op.Seed)))
		}
	}

	steps, deadlock := 0, ""

	var panicked any

	if !c.Conc {
		func() {
			defer func() { panicked = recover() }()

			setup()

			for i, op := range c.Ops {
				do(i, op)
			}

			closeErr = rec.Close()
		}()
	} else {
		s := &sched.Sched{MaxSteps: 60000, KeepTrace: os.Getenv("VERIF_C35_TRACE") != ""}
		s.YieldOnUnlock = sched.UnlockYields(c.SchedSeed)
		s.MapSeed = c.SchedSeed | 1
		s.Choose = sched.ListChooser(c.Decisions, sched.MixedChooser(c.SchedSeed, s))

		if c.Decisions != nil {
			s.Choose = sched.ListChooser(c.Decisions, nil)
		}

		done := 0
		s.Finished = func() bool { return done == c.Gs }
		s.After = func() {
			defer func() {
				if r := recover(); r != nil && panicked == nil {
					panicked = r
				}
			}()

			closeErr = rec.Close()
		}

		sched.Run(T, s, func(s *sched.Sched) {
			setup()

			for g := 0; g < c.Gs; g++ {
				g := g
				s.Go(fmt.Sprintf("inserter%d", g), func() {
					defer func() {
						if r := recover(); r != nil && panicked == nil {
							panicked = r
						}

						done++
					}()

					for i, op := range c.Ops {
						if op.G == g {
							do(i, op)
							sched.Yield("inserter:between-ops")
						}
					}
				})
			}
		})

		steps, deadlock = s.Steps, s.Deadlock

		if s.KeepTrace {
			fmt.Fprintf(os.Stderr, "trace: %v\n", s.Trace)
		}
		out.Steps = uint64(steps)

		if s.CapHit {
			out.Inconclusive = "step-cap"
			return out
		}

		if deadlock != "" && panicked == nil {
			out.Violation = kit.Violate("recorder", "C35:concurrent-use-deadlocks", "concurrent InsertData/Flush from %d goroutines stopped making progress: %s", c.Gs, deadlock)
			return out
		}

		out.Shape = fmt.Sprint(s.Decided)
	}

	if panicked != nil {
		if strings.Contains(fmt.Sprint(panicked), "uint64 values with high bit set") {
			out.Violation = kit.Violate("recorder", "C35:uint64-above-int64-max-panics", "an entry with a uint64 field above 2^63-1 makes the recorder panic when the batch is flushed: %v", panicked)
			return out
		}

		sig := "C35:sequential-use-panics"
		if c.Conc {
			sig = "C35:concurrent-use-panics"
		}

		out.Violation = kit.Violate("recorder", sig, "InsertData/Flush/Close from %d goroutine(s) panicked: %v", c.Gs, panicked)

		return out
	}

	if closeErr != nil {
		out.Violation = kit.Violate("recorder", "C35:close-error", "Close: %v", closeErr)
		return out
	}

	// read everything back
	db, err := sql.Open("sqlite", path+".sqlite3")
	if err != nil {
		panic(kit.HarnessError("cannot reopen recorder database: " + err.Error()))
	}

	defer db.Close()

	locByID := map[int64]string{}
	idByLoc := map[string]int64{}

	if rows, err := db.Query("SELECT ID, Locale FROM location"); err == nil {
		for rows.Next() {
			var id int64

			var l string

			_ = rows.Scan(&id, &l)

			if prev, dup := locByID[id]; dup {
				out.Violation = kit.Violate("recorder", "C35:location-id-reused", "location ID %d is used for %q and %q", id, prev, l)
			}

			if prev, dup := idByLoc[l]; dup {
				out.Violation = kit.Violate("recorder", "C35:location-string-duplicated", "location %q has IDs %d and %d", l, prev, id)
			}

			locByID[id], idByLoc[l] = l, id
		}

		rows.Close()
	}

	if out.Violation != nil {
		return out
	}

	queries := []string{
		"SELECT ID, Name, Val, Flag FROM ta", "SELECT Key, Place, Dst, Small, U8, Idx FROM tb", "SELECT S, N, Loc, F32, U16, Uniq FROM tc",
	}

	for t, q := range queries {
		rows, err := db.Query(q)
		if err != nil {
			out.Violation = kit.Violate("recorder", "C35:table-unreadable", "%s: %v", q, err)
			return out
		}

		var got []string

		for rows.Next() {
			switch t {
			case 0:
				var a rowA
				_ = rows.Scan(&a.ID, &a.Name, &a.Val, &a.Flag)
				got = append(got, canon(a))
			case 1:
				var b rowB

				var loc, dst any

				_ = rows.Scan(&b.Key, &loc, &dst, &b.Small, &b.U8, &b.Idx)
				b.Place, b.Dst = resolveLoc(locByID, loc), resolveLoc(locByID, dst)

				got = append(got, canon(b))
			default:
				var cc rowC

				var loc int64

				_ = rows.Scan(&cc.S, &cc.N, &loc, &cc.F32, &cc.U16, &cc.Uniq)
				cc.Loc = locByID[loc]

				if _, ok := locByID[loc]; !ok {
					cc.Loc = fmt.Sprintf("<dangling location id %d>", loc)
				}

				got = append(got, canon(cc))
			}
		}

		rows.Close()
		sort.Strings(got)

		w := append([]string(nil), want[t]...)
		sort.Strings(w)

		if d := multisetDiff(w, got); d != "" {
			mode := "sequential"
			if c.Conc {
				mode = "concurrent"
			}

			out.Violation = kit.Violate("recorder", "C35:entries-differ["+mode+"]", "table %s after Close (%s, batch size %d): %s", names[t], mode, c.Batch, d)

			return out
		}
	}

	flushes := 0
	for _, op := range c.Ops {
		if op.Flush {
			flushes++
		}
	}

	out.Fault("explicit-flush", flushes)
	out.Probe("concurrent-run", btoi(c.Conc))
	out.Probe("tiny-batch(<=3)", btoi(c.Batch <= 3))

	if out.Shape == "" {
		out.Shape = fmt.Sprint(c.Batch, c.Ops)
	}

	out.NonTrivial = len(c.Ops) >= 3
	out.Sample = map[string]any{"concurrent": c.Conc, "goroutines": c.Gs, "batch": c.Batch, "ops": len(c.Ops), "scheduler_steps": steps}

	return out
}

// resolveLoc maps what a location column holds back to the interned string.
func resolveLoc(locByID map[int64]string, v any) string {
	id, isInt := v.(int64)
	if !isInt {
		return fmt.Sprintf("<location column holds %T %v instead of an ID>", v, v)
	}

	l, ok := locByID[id]
	if !ok {
		return fmt.Sprintf("<dangling location id %d>", id)
	}

	return l
}

func btoi(b bool) int {
	if b {
		return 1
	}

	return 0
}

// canon renders the non-ignored fields of a row.
func canon(row any) string {
	switch r := row.(type) {
	case rowA:
		return fmt.Sprintf("A|%d|%q|%v|%v", r.ID, r.Name, r.Val, r.Flag)
	case rowB:
		return fmt.Sprintf("B|%d|%q|%q|%d|%d|%d", r.Key, r.Place, r.Dst, r.Small, r.U8, r.Idx)
	case rowC:
		return fmt.Sprintf("C|%q|%d|%q|%v|%d|%d", r.S, r.N, r.Loc, r.F32, r.U16, r.Uniq)
	}

	return fmt.Sprint(row)
}

func multisetDiff(want, got []string) string {
	count := map[string]int{}
	for _, w := range want {
		count[w]++
	}

	for _, g := range got {
		count[g]--
	}

	var missing, extra []string

	for k, v := range count {
		switch {
		case v > 0:
			missing = append(missing, fmt.Sprintf("%s (x%d)", k, v))
		case v < 0:
			extra = append(extra, fmt.Sprintf("%s (x%d)", k, -v))
		}
	}

	if len(missing) == 0 && len(extra) == 0 {
		return ""
	}

	sort.Strings(missing)
	sort.Strings(extra)

	return fmt.Sprintf("%d inserted, %d present; missing or altered: %v; unexpected or duplicated: %v", len(want), len(got), head(missing), head(extra))
}

func head(s []string) []string {
	if len(s) > 4 {
		return s[:4]
	}

	return s
}

func init() {
	kit.Register(kit.Spec[recCase]{
		ID: "C35", Level: "exploration",
		Rule: "the real SQLite data recorder with three table shapes over the allowed field kinds (location, ignore, index and unique tags), values with quotes, unicode, SQL fragments and extreme integers, batch sizes 1/2/3/7/default set through the verif hook, explicit flushes anywhere; half of the runs are sequential histories, half run 2-4 inserter goroutines (inserts and flushes) under the seeded scheduler with datarecorder.go woven; " +
			"after Close the database is read back with database/sql: every table must hold exactly the inserted multiset of non-ignored field values and the location table must be one-to-one; distinct = hash of the decision list (concurrent) or of the history; non-trivial = >= 3 operations",
		Assumptions: []string{"disk errors are not injected: the pure-Go SQLite driver has no VFS seam to do it honestly", "unsigned 64-bit values above 2^63-1 are generated rarely and their rejection by database/sql is classified separately (open known finding)"},
		Real:        []string{"datarecording/datarecorder.go (woven)", "database/sql + github.com/glebarez/go-sqlite"},
		Stubs:       []string{"inserter goroutines", "seeded scheduler"},
		FaultKinds:  []string{"explicit-flush"},
		Quick:       kit.Budget{Runs: 1500, WallS: 100, CaseS: 120},
		Thorough:    kit.Budget{Runs: 300000, WallS: 1500, CaseS: 300},
		Gen:         genC35, Exec: execC35,
		Shrink: func(c recCase) []recCase {
			var out []recCase
			for _, l := range kit.ListShrinks(c.Ops) {
				q := c
				q.Ops = l
				q.Decisions = nil
				out = append(out, q)
			}

			return out
		},
	})
}
