//go:build woven

package econc

import (
	"fmt"
	"io"

	"verif/sim/kit"
	"verif/sim/sched"
)

func genC04(r *kit.Rand, tier kit.Tier) EngCase {
	maxEv := 14
	if tier == kit.Thorough {
		maxEv = r.PickInt(14, 30, 60)
	}

	c := EngCase{Parallel: true, Procs: r.PickInt(1, 2, 4, 16), Prog: GenProgram(r, maxEv), Seed: r.Uint64()}
	if r.Chance(1, 3) {
		c.Pauses = r.Range(1, 3)
	}

	return c
}

func execC04(c EngCase, _ *kit.Env) kit.Outcome {
	var out kit.Outcome

	var ctl func(w *world)

	if c.Pauses > 0 {
		// an external goroutine that pauses the engine, schedules a primary event at
		// the current time (legal while paused) and lets the engine continue
		ctl = func(w *world) {
			for i := 0; i < c.Pauses; i++ {
				sched.Yield("controller:before-pause")
				w.eng.Pause()
				n := len(w.recs)
				w.scheduleBy(w.eng.CurrentTime(), Child{Delta: 0, Tag: i}, false)

				if len(w.recs) > n {
					w.recs[n].external = true
				}
				sched.Yield("controller:scheduled-while-paused")
				w.eng.Continue()
				w.pausesDone++
			}
		}
	}

	w, s := runEngine(&c, ctl)
	finishOutcome(&out, &c, w, s)
	out.Fault("pause+external-schedule+continue", w.pausesDone)

	if s.Deadlock != "" && w.V == nil {
		w.fail("liveness", "C04:run-does-not-return", "the parallel engine stopped making progress: %s", s.Deadlock)
	}

	if w.V == nil && s.CapHit {
		if stuck, handled := neverReturns(&c, ctl); stuck {
			w.fail("liveness", "C04:run-does-not-return", "the parallel engine keeps running without returning (fair schedule, %d of %d events handled after 300000 steps)", handled, len(w.recs))
		}
	}

	if w.V == nil && !s.CapHit {
		exactlyOnce(w, "C04")
	}

	out.Violation = w.V
	if out.Violation == nil {
		out.Violation = w.phase
	}

	out.NonTrivial = len(w.recs) >= 4 && countChoices(s) >= 2

	return out
}

func genC05(r *kit.Rand, tier kit.Tier) EngCase {
	c := genC04(r, tier)
	c.Pauses = 0
	c.Parallel = r.Bool()
	c.Pauses = r.Range(1, 3)
	c.HoldSteps = r.Range(0, 6)

	// on the parallel engine (whose Pause waits for the round and excludes other
	// pausers) one run in three has two goroutines pausing at about the same time
	if c.Parallel && r.Chance(1, 3) {
		c.Pausers = 2
	}

	return c
}

func execC05(c EngCase, _ *kit.Env) kit.Outcome {
	var out kit.Outcome

	ctl := func(w *world) {
		for i := 0; i < c.Pauses; i++ {
			sched.Yield("controller:before-pause")
			w.eng.Pause()

			// same scheduling segment as the return of Pause: nothing else has run
			if w.inflight != 0 {
				w.failPhase("pause-quiescent", "C05:handler-in-flight-when-pause-returned["+engName(w.c)+"]", "%d event handler(s) were executing when Pause() returned (%s engine)", w.inflight, engName(w.c))
			}

			w.paused = true
			w.startedPaused = 0

			for k := 0; k < c.HoldSteps; k++ {
				sched.Yield("controller:holding")

				// what a user does with a paused simulation: look at it, save it. Saving
				// (whether it succeeds or not) must leave the pause in place.
				if ck, ok := w.eng.(interface{ SaveCheckpoint(io.Writer) error }); ok && k == 1 && c.HoldSteps%2 == 0 {
					// On the serial engine Pause() can return with the run loop in the
					// middle of a queue operation (the open finding); a save then reads
					// a half-updated queue and may panic. That is that finding again,
					// not a new one: the panic is absorbed here.
					func() {
						defer func() { _ = recover() }()

						_ = ck.SaveCheckpoint(io.Discard)
					}()

					w.savesWhilePaused++
				}
			}

			w.paused = false
			w.eng.Continue()
			w.pausesDone++
		}
	}
	w, s := runEngine(&c, ctl)
	finishOutcome(&out, &c, w, s)

	if s.Deadlock != "" && w.V == nil {
		w.fail("liveness", "C05:run-does-not-proceed-after-continue["+engName(&c)+"]", "after %d Pause/Continue pair(s) the %s engine stopped making progress: %s", w.pausesDone, engName(&c), s.Deadlock)
	}

	if w.V == nil && w.phase == nil && s.CapHit {
		if stuck, handled := neverReturns(&c, ctl); stuck {
			w.fail("liveness", "C05:run-keeps-running-without-returning["+engName(&c)+"]", "the %s engine keeps running without returning (fair schedule, %d of %d events handled after 300000 steps)", engName(&c), handled, len(w.recs))
		}
	}

	if w.V == nil && !s.CapHit {
		exactlyOnce(w, "C05")
	}

	// C05 owns the pause oracles only
	if w.V != nil && len(w.V.Sig) >= 3 && w.V.Sig[:3] == "C04" {
		w.V = nil
	}

	if w.phase != nil && len(w.phase.Sig) >= 3 && w.phase.Sig[:3] == "C04" {
		w.phase = nil
	}

	out.Violation = w.V
	if out.Violation == nil {
		out.Violation = w.phase // listed findings last, so that they hide nothing
	}

	out.Fault("pause-continue-pair", w.pausesDone)
	out.Fault("checkpoint-saved-while-paused", w.savesWhilePaused)
	out.Probe("engine:"+engName(&c), 1)
	out.NonTrivial = w.pausesDone > 0 && len(w.recs) >= 3

	return out
}

// shrinkEng: first materialise the decision list, then cut it down.
func shrinkEng(exec func(EngCase, *kit.Env) kit.Outcome) func(c EngCase) []EngCase {
	return func(c EngCase) []EngCase {
		var out []EngCase

		if c.Decisions == nil {
			q := c
			_, s := runEngine(&q, nil)
			q.Decisions = append([]int{}, s.Decided...)

			return []EngCase{q}
		}

		for _, l := range kit.ListShrinks(c.Decisions) {
			q := c
			q.Decisions = l
			out = append(out, q)
		}

		if len(c.Prog.Initial) > 1 {
			for _, l := range kit.ListShrinks(c.Prog.Initial) {
				if len(l) > 0 {
					q := c
					q.Prog.Initial = l
					out = append(out, q)
				}
			}
		}

		return out
	}
}

func init() {
	real := []string{"timing/parallelengine.go", "timing/serialengine.go", "timing/eventqueue.go (all woven with yield points from the current working tree)"}
	kit.Register(kit.Spec[EngCase]{
		ID: "C04", Level: "exploration",
		Rule: "random handler programs (same-instant chains crossing the primary/secondary classes, 3-14 events; thorough up to 60) on the real ParallelEngine built for GOMAXPROCS 1/2/4/16, every goroutine interleaving decided by the seeded scheduler at the yield points woven into the engine and queue code and placed in the handlers (which schedule children from worker goroutines); in a third of the runs an external goroutine pauses the engine 1-3 times, schedules a primary event at the current time and continues; " +
			"oracles on the scheduler's total order: every event handled exactly once, no event starts while an earlier-time event is unfinished, no secondary starts while a primary of an instant <= its own whose Schedule call had returned is unfinished, CurrentTime() inside a handler equals the event time, Run returns; distinct = hash of (GOMAXPROCS, decision list); non-trivial = >= 4 events and >= 2 decisions with a real choice",
		Assumptions: []string{"interleavings are explored at yield points and atomic-operation boundaries, not at weak-memory level", "the race detector is not the oracle (token passing would hide every race)"},
		Real:        real, Stubs: []string{"event handlers", "seeded scheduler (sim/sched) deciding which goroutine runs"},
		FaultKinds: []string{"pause+external-schedule+continue"},
		Quick:      kit.Budget{Runs: 6000, WallS: 100, CaseS: 120},
		Thorough:   kit.Budget{Runs: 1000000, WallS: 1500, CaseS: 300},
		Gen:        genC04, Exec: execC04,
		Shrink: func(c EngCase) []EngCase {
			if c.Decisions == nil {
				q := c
				_, s := runEngine(&q, nil)
				q.Decisions = append([]int{}, s.Decided...)

				return []EngCase{q}
			}

			var out []EngCase
			for _, l := range kit.ListShrinks(c.Decisions) {
				q := c
				q.Decisions = l
				out = append(out, q)
			}

			return out
		},
	})
	kit.Register(kit.Spec[EngCase]{
		ID: "C05", Level: "exploration",
		Rule: "C04 programs on the serial and on the parallel engine plus a controller goroutine performing 1-3 well-formed Pause/Continue pairs at scheduler-chosen instants (also before Run starts and after it returned) and holding the pause for 0-6 scheduling steps; " +
			"oracles: in the scheduling segment in which Pause() returns no handler is executing, no handler starts until Continue() is called, afterwards every event is handled exactly once and Run returns (a stuck engine is reported by the scheduler as a deadlock); distinct = hash of (engine, GOMAXPROCS, decision list); non-trivial = a pause happened and >= 3 events",
		Assumptions: []string{"controllers are serialised, as the monitor does"},
		Real:        real, Stubs: []string{"event handlers", "controller goroutine", "seeded scheduler"},
		FaultKinds: []string{"pause-continue-pair", "checkpoint-saved-while-paused"},
		Quick:      kit.Budget{Runs: 3000, WallS: 100, CaseS: 120},
		Thorough:   kit.Budget{Runs: 1000000, WallS: 1500, CaseS: 300},
		Gen:        genC05, Exec: execC05,
	})
	_ = fmt.Sprint
	_ = shrinkEng
}
