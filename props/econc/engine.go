//go:build woven

// Package econc runs real goroutines of the akita engines under the
// deterministic scheduler (sim/sched) with the akita sources woven with yield
// points (tools/weave): properties C04, C05, C41 (and the concurrent halves of
// C35 and C40).
package econc

import (
	"fmt"
	"runtime"
	"testing"

	"github.com/sarchlab/akita/v5/timing"

	"verif/sim/kit"
	"verif/sim/sched"
)

// T is the *testing.T of the hosting test binary (testing/synctest needs one).
var T *testing.T

func init() {
	timing.VerifYield = sched.Yield
	timing.VerifLock = sched.Lock
	timing.VerifUnlock = sched.Unlock
	timing.VerifCondWait = sched.CondWait
	timing.VerifCondBroadcast = sched.CondBroadcast
}

// Child is one event scheduled by a handler.
type Child struct {
	Delta     uint64 `json:"d"`
	Secondary bool   `json:"s,omitempty"`
	Tag       int    `json:"t"`
}

// Program is a finite handler program.
type Program struct {
	Initial   []Child   `json:"initial"`
	Table     [][]Child `json:"table"`
	MaxEvents int       `json:"max_events"`
}

// EngCase is one scheduled execution of an engine.
type EngCase struct {
	Parallel  bool    `json:"parallel"`
	Procs     int     `json:"procs"`
	Prog      Program `json:"prog"`
	Pauses    int     `json:"pauses"` // C05: number of Pause/Continue pairs
	HoldSteps int     `json:"hold_steps"`
	Pausers   int     `json:"pausers,omitempty"` // C05: 2 = two goroutines pause the (parallel) engine at about the same time
	Seed      uint64  `json:"seed"`
	Decisions []int   `json:"decisions,omitempty"` // explicit schedule (replay / shrinking)
}

type evt struct {
	time      timing.VTimeInPicoSec
	secondary bool
	tag       int
	ord       int
}

func (e *evt) Time() timing.VTimeInPicoSec { return e.time }
func (e *evt) HandlerID() string           { return "H" }
func (e *evt) IsSecondary() bool           { return e.secondary }

type evRec struct {
	time          uint64
	secondary     bool
	schedDone     uint64 // sequence number at which Schedule returned
	start         uint64
	end           uint64
	count         int
	bySecondaryAt uint64 // time+1 of the secondary handler that scheduled it (0: scheduled otherwise)
	external      bool   // scheduled by the controller goroutine, possibly while Run was about to return
}

type world struct {
	c                *EngCase
	eng              timing.Engine
	seq              uint64
	recs             []*evRec
	inflight         int
	V                *kit.Violation
	paused           bool // between Pause() returning and Continue() being called
	startedPaused    int  // handler starts in the current pause
	runDone          bool
	ctlDone          bool
	ctlsDone         int
	pausesDone       int
	savesWhilePaused int
	phase            *kit.Violation
}

// failPhase records the phase-order finding separately so that it does not hide
// any other oracle of the same run (it is a listed known finding).
func (w *world) failPhase(oracle, sig, f string, a ...any) {
	if w.phase == nil {
		w.phase = kit.Violate(oracle, sig, f, a...)
	}
}

func (w *world) fail(oracle, sig, f string, a ...any) {
	if w.V == nil {
		w.V = kit.Violate(oracle, sig, f, a...)
	}
}

func (w *world) schedule(now timing.VTimeInPicoSec, c Child) { w.scheduleBy(now, c, false) }

func (w *world) scheduleBy(now timing.VTimeInPicoSec, c Child, bySecondary bool) {
	if len(w.recs) >= w.c.Prog.MaxEvents {
		return
	}

	if now+timing.VTimeInPicoSec(c.Delta) < now {
		return // there is no time after the largest one: the child does not exist
	}

	e := &evt{time: now + timing.VTimeInPicoSec(c.Delta), secondary: c.Secondary, tag: c.Tag, ord: len(w.recs)}
	r := &evRec{time: uint64(e.time), secondary: c.Secondary}
	if bySecondary {
		r.bySecondaryAt = uint64(now) + 1
	}

	w.recs = append(w.recs, r)
	w.eng.Schedule(e)
	w.seq++
	r.schedDone = w.seq
}

type handler struct{ w *world }

func (h handler) Handle(e timing.Event) error {
	w := h.w
	ev := e.(*evt)
	r := w.recs[ev.ord]
	w.seq++
	r.start = w.seq
	r.count++
	w.inflight++

	if w.paused {
		// the listed finding on the serial engine is the one event whose pause check
		// had already passed; a second start in the same pause is something else
		w.startedPaused++
		if w.startedPaused >= 2 {
			w.fail("pause-quiescent", "C05:handlers-keep-starting-while-paused["+engName(w.c)+"]", "event #%d (t=%d) is handler start number %d after Pause() had returned and before Continue() was called (%s engine)", ev.ord, ev.time, w.startedPaused, engName(w.c))
		}

		w.failPhase("pause-quiescent", "C05:handler-started-while-paused["+engName(w.c)+"]", "event #%d (t=%d) started after Pause() had returned and before Continue() was called (%s engine)", ev.ord, ev.time, engName(w.c))
	}

	if now := w.eng.CurrentTime(); now != ev.time {
		w.fail("time-order", "C04:clock-differs-from-event-time", "CurrentTime()=%d inside the handler of an event at t=%d", now, ev.time)
	}

	// order oracles, evaluated on the scheduler's total order
	for i, o := range w.recs {
		if o.start != 0 && o.end == 0 && o.time < r.time {
			w.fail("time-order", "C04:earlier-event-unfinished", "event #%d (t=%d) started while event #%d (t=%d) was still being handled", ev.ord, r.time, i, o.time)
		}

		if r.secondary && !o.secondary && o.time <= r.time && o.end == 0 && o.schedDone != 0 && o.schedDone < r.start && i != ev.ord {
			who := "before the instant"
			if o.time == r.time {
				who = "at the same instant"
			}

			if o.bySecondaryAt == r.time+1 {
				// the primary was scheduled by a sibling secondary of this very instant:
				// the listed known finding (round structure of the parallel engine)
				w.failPhase("phase-order", "C04:secondary-started-before-primary-scheduled-by-sibling-secondary", "secondary event #%d (t=%d) started although primary event #%d (t=%d, scheduled by a secondary handler of the same instant; its Schedule call had returned) had not finished", ev.ord, r.time, i, o.time)
			} else {
				w.fail("phase-order", "C04:secondary-started-before-primary-finished", "secondary event #%d (t=%d) started although primary event #%d (t=%d, scheduled %s by a primary handler, the controller or the initial program; its Schedule call had returned) had not finished", ev.ord, r.time, i, o.time, who)
			}
		}
	}

	sched.Yield("handler:begin")

	if ev.tag >= 0 && ev.tag < len(w.c.Prog.Table) {
		for _, c := range w.c.Prog.Table[ev.tag] {
			w.scheduleBy(ev.time, c, ev.secondary)
			sched.Yield("handler:scheduled")
		}
	}

	sched.Yield("handler:end")
	w.inflight--
	w.seq++
	r.end = w.seq

	return nil
}

func engName(c *EngCase) string {
	if c.Parallel {
		return "parallel"
	}

	return "serial"
}

// GenProgram draws a program.
func GenProgram(r *kit.Rand, maxEv int) Program {
	p := Program{MaxEvents: r.Range(3, maxEv)}
	ntags := r.Range(1, 6)
	deltas := []uint64{0, 0, 0, 1, 1, 2, 5}

	for i := 0; i < ntags; i++ {
		var cs []Child
		for j := 0; j < r.Weighted(3, 4, 2); j++ {
			cs = append(cs, Child{Delta: deltas[r.Intn(len(deltas))], Secondary: r.Chance(2, 5), Tag: r.Intn(ntags + 1)})
		}

		p.Table = append(p.Table, cs)
	}

	for i := 0; i < r.Range(1, 5); i++ {
		p.Initial = append(p.Initial, Child{Delta: uint64(r.PickInt(0, 0, 1, 3)), Secondary: r.Chance(2, 5), Tag: r.Intn(ntags + 1)})
	}

	// now and then an event at the largest time there is (a valid time value)
	if r.Chance(1, 10) {
		p.Initial = append(p.Initial, Child{Delta: ^uint64(0), Secondary: r.Chance(1, 3), Tag: ntags})
	}

	return p
}

// runEngine executes the case; ctl (optional) is the controller goroutine body.
func runEngine(c *EngCase, ctl func(w *world)) (*world, *sched.Sched) {
	return runEngineWith(c, ctl, false)
}

// fairChooser always runs the runnable goroutine that has waited longest: under
// it a step cap cannot be blamed on a starved goroutine.
func fairChooser(s *sched.Sched) func(n int) int {
	last := map[string]int{}
	step := 0

	return func(n int) int {
		step++
		last[s.Last] = step
		best := 0

		for i, name := range s.Runnable {
			if last[name] < last[s.Runnable[best]] {
				best = i
			}
		}

		return best
	}
}

// neverReturns decides what a step cap means. The programs are finite, so a run
// that reaches the cap either starved a goroutine (the seeded strategies are not
// fair: inconclusive) or is an engine that spins without handling anything. The
// case is run again under the fair strategy with ten times the budget; a cap
// there is a run that does not return.
func neverReturns(c *EngCase, ctl func(w *world)) (bool, int) {
	q := *c
	q.Decisions = nil
	w, s := runEngineWith(&q, ctl, true)
	handled := 0

	for _, r := range w.recs {
		handled += r.count
	}

	return s.CapHit, handled
}

func runEngineWith(c *EngCase, ctl func(w *world), fair bool) (*world, *sched.Sched) {
	w := &world{c: c}
	s := &sched.Sched{MaxSteps: 30000}
	s.YieldOnUnlock = sched.UnlockYields(c.Seed)
	s.Choose = sched.ListChooser(c.Decisions, sched.MixedChooser(c.Seed, s))

	if c.Decisions != nil {
		s.Choose = sched.ListChooser(c.Decisions, nil)
	}

	if fair {
		s.MaxSteps = 300000
		s.Choose = fairChooser(s)
	}

	nctl := 0
	if ctl != nil {
		nctl = max(1, c.Pausers)
	}

	s.Finished = func() bool { return w.runDone && w.ctlsDone == nctl }

	sched.Run(T, s, func(s *sched.Sched) {
		// everything the goroutines block on (the engine's channels) has to be
		// created inside the synctest bubble
		old := runtime.GOMAXPROCS(0)

		if c.Parallel {
			runtime.GOMAXPROCS(c.Procs) // NewParallelEngine sizes its queue set from it
			w.eng = timing.NewParallelEngine()
			runtime.GOMAXPROCS(old)
		} else {
			w.eng = timing.NewSerialEngine()
		}

		w.eng.(timing.HandlerRegistrar).RegisterHandler("H", handler{w})

		for _, ch := range c.Prog.Initial {
			w.schedule(0, ch)
		}

		s.Go("run", func() {
			_ = w.eng.Run()
			w.runDone = true
		})

		for k := 0; k < nctl; k++ {
			s.Go(fmt.Sprintf("controller%d", k), func() {
				ctl(w)
				w.ctlsDone++
				w.ctlDone = w.ctlsDone == nctl
			})
		}
	})

	return w, s
}

func finishOutcome(out *kit.Outcome, c *EngCase, w *world, s *sched.Sched) {
	out.Steps = uint64(s.Steps)
	out.Events = uint64(len(w.recs))
	out.Shape = fmt.Sprint(c.Parallel, c.Procs, s.Decided)
	out.Probe("scheduler-decisions-with-choice", countChoices(s))

	if s.CapHit {
		out.Inconclusive = "step-cap"
	}
}

func countChoices(s *sched.Sched) int {
	n := 0
	for _, d := range s.Decided {
		if d > 0 {
			n++
		}
	}

	return n
}

// exactlyOnce checks that every scheduled event was handled once and Run
// returned with nothing left.
func exactlyOnce(w *world, prop string) {
	for i, r := range w.recs {
		if r.external && r.count == 0 {
			continue // scheduled from outside while Run was deciding to return: not part of the program
		}

		if r.count != 1 {
			w.fail("exactly-once", prop+":event-handled-"+fmt.Sprint(min(r.count, 2))+"-times", "event #%d (t=%d) was handled %d times by the %s engine", i, r.time, r.count, engName(w.c))
			return
		}
	}
}
