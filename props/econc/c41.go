//go:build woven

package econc

import (
	"bytes"
	"fmt"
	"io"

	"github.com/sarchlab/akita/v5/timing"

	"verif/sim/kit"
	"verif/sim/sched"
)

type idOp struct {
	Kind string `json:"kind"` // gen, save, restore, rebuild-restore
	N    int    `json:"n,omitempty"`
}

type idCase struct {
	Parallel  bool   `json:"parallel"` // UseParallelIDGenerator
	Explicit  bool   `json:"explicit"` // call Use...() first, else lazy creation
	Gs        int    `json:"gs"`       // concurrent callers (0: sequential history)
	PerG      []int  `json:"per_g"`    // IDs drawn by each caller
	Cache     []bool `json:"cache"`    // caller keeps the generator it got first
	Ops       []idOp `json:"ops"`      // sequential history
	SchedSeed uint64 `json:"sched_seed"`
	Decisions []int  `json:"decisions,omitempty"`
}

type ckpt interface {
	SaveCheckpoint(io.Writer) error
	LoadCheckpoint(io.Reader) error
}

func genC41(r *kit.Rand, tier kit.Tier) idCase {
	c := idCase{SchedSeed: r.Uint64(), Explicit: r.Chance(1, 2)}

	if r.Chance(1, 2) {
		c.Parallel = r.Chance(1, 2)
		c.Gs = r.Range(2, 5)

		for g := 0; g < c.Gs; g++ {
			c.PerG = append(c.PerG, r.Range(1, 6))
			c.Cache = append(c.Cache, r.Bool())
		}

		return c
	}

	n := r.Range(2, 12)
	if tier == kit.Thorough {
		n = r.Range(2, 40)
	}

	for i := 0; i < n; i++ {
		switch r.Intn(7) {
		case 6:
			// the counter is moved far ahead (timing.SetIDGeneratorNextID, what a restore
			// of a long run does): beyond 2^53, or beyond 2^61
			c.Ops = append(c.Ops, idOp{Kind: "jump", N: r.Intn(2)})
		case 0:
			c.Ops = append(c.Ops, idOp{Kind: "save"})
		case 1:
			c.Ops = append(c.Ops, idOp{Kind: "restore"})
		case 2:
			c.Ops = append(c.Ops, idOp{Kind: "rebuild-restore"})
		default:
			c.Ops = append(c.Ops, idOp{Kind: "gen", N: r.Range(1, 9)})
		}
	}

	return c
}

// seqHistory runs a sequential history once and returns every ID in order, or a
// violation.
func seqHistory(c idCase) ([]uint64, *kit.Violation) {
	timing.ResetIDGenerator()

	if c.Explicit {
		timing.UseSequentialIDGenerator()
	}

	var ids []uint64

	var saved []byte

	savedAt := -1

	jumps, at := 0, uint64(0)

	for k, op := range c.Ops {
		switch op.Kind {
		case "gen":
			for i := 0; i < op.N; i++ {
				ids = append(ids, timing.GetIDGenerator().Generate())
			}
		case "jump":
			if jumps >= 6 {
				continue // stay well below 2^64
			}

			jumps++
			at += uint64(1)<<53 + 1

			if op.N == 1 {
				at += uint64(1) << 61
			}

			timing.GetIDGenerator()
			timing.SetIDGeneratorNextID(at + uint64(len(ids)))

			// the jump is the harness's act, not part of the generator's sequence: an
			// earlier save point is not compared across it
			saved, savedAt = nil, -1
		case "save":
			var b bytes.Buffer
			if err := timing.GetIDGenerator().(ckpt).SaveCheckpoint(&b); err != nil {
				return nil, kit.Violate("idgen", "C41:sequential-save-fails", "op %d: SaveCheckpoint: %v", k, err)
			}

			saved, savedAt = b.Bytes(), len(ids)
		case "restore", "rebuild-restore":
			if saved == nil {
				continue
			}

			if op.Kind == "rebuild-restore" {
				timing.ResetIDGenerator()

				if c.Explicit {
					timing.UseSequentialIDGenerator()
				}
			}

			if err := timing.GetIDGenerator().(ckpt).LoadCheckpoint(bytes.NewReader(saved)); err != nil {
				return nil, kit.Violate("idgen", "C41:sequential-load-fails", "op %d: LoadCheckpoint: %v", k, err)
			}

			// what was handed out after the save point is handed out again
			after := append([]uint64(nil), ids[savedAt:]...)
			for i, want := range after {
				got := timing.GetIDGenerator().Generate()
				if got != want {
					return nil, kit.Violate("idgen", "C41:restore-does-not-continue-sequence", "op %d (%s): ID %d after the restored save point is %d, the original run handed out %d there", k, op.Kind, i, got, want)
				}
			}

			if len(after) == 0 {
				// nothing followed the save; the next ID must be new
				got := timing.GetIDGenerator().Generate()
				for _, old := range ids[:savedAt] {
					if old == got {
						return nil, kit.Violate("idgen", "C41:restore-reissues-earlier-id", "op %d (%s): ID %d was handed out before the save point and again after restoring it", k, op.Kind, got)
					}
				}

				ids = append(ids, got)
			}
		}
	}

	return ids, nil
}

func execC41(c idCase, env *kit.Env) kit.Outcome {
	var out kit.Outcome

	defer timing.ResetIDGenerator()

	if c.Gs == 0 {
		a, v := seqHistory(c)
		if v != nil {
			out.Violation = v
			return out
		}

		b, v := seqHistory(c)
		if v != nil {
			out.Violation = v
			return out
		}

		if fmt.Sprint(a) != fmt.Sprint(b) {
			out.Violation = kit.Violate("idgen", "C41:sequence-differs-between-runs", "the same history handed out %v in one run and %v in the next", a, b)
			return out
		}

		if v := uniqueNonzero(a); v != nil {
			out.Violation = v
			return out
		}

		restores := 0
		for _, op := range c.Ops {
			if op.Kind != "gen" && op.Kind != "save" {
				restores++
			}
		}

		out.Fault("checkpoint-restore", restores)
		out.Shape = fmt.Sprint(c.Ops, c.Explicit)
		out.NonTrivial = len(a) >= 2
		out.Sample = map[string]any{"ids": len(a), "ops": len(c.Ops)}

		return out
	}

	// concurrent callers under the scheduler
	s := &sched.Sched{MaxSteps: 20000}
	s.YieldOnUnlock = sched.UnlockYields(c.SchedSeed)
	s.Choose = sched.ListChooser(c.Decisions, sched.MixedChooser(c.SchedSeed, s))

	if c.Decisions != nil {
		s.Choose = sched.ListChooser(c.Decisions, nil)
	}

	done := 0
	s.Finished = func() bool { return done == c.Gs }

	got := make([][]uint64, c.Gs)

	var panicked any

	sched.Run(T, s, func(s *sched.Sched) {
		timing.ResetIDGenerator()

		if c.Explicit {
			if c.Parallel {
				timing.UseParallelIDGenerator()
			} else {
				timing.UseSequentialIDGenerator()
			}
		}

		for g := 0; g < c.Gs; g++ {
			g := g
			s.Go(fmt.Sprintf("caller%d", g), func() {
				defer func() {
					if r := recover(); r != nil && panicked == nil {
						panicked = r
					}

					done++
				}()

				var gen timing.IDGenerator

				for i := 0; i < c.PerG[g]; i++ {
					if gen == nil || !c.Cache[g] {
						gen = timing.GetIDGenerator()
					}

					got[g] = append(got[g], gen.Generate())
					sched.Yield("caller:between-ids")
				}
			})
		}
	})

	out.Steps = uint64(s.Steps)

	if s.CapHit {
		out.Inconclusive = "step-cap"
		return out
	}

	if panicked != nil || s.Deadlock != "" {
		out.Violation = kit.Violate("idgen", "C41:concurrent-use-fails", "%d concurrent callers: panic=%v deadlock=%q", c.Gs, panicked, s.Deadlock)
		return out
	}

	var all []uint64
	for _, l := range got {
		all = append(all, l...)
	}

	if v := uniqueNonzero(all); v != nil {
		v.Sig += "[concurrent]"
		v.Detail = fmt.Sprintf("%d concurrent callers (per-caller IDs %v): %s", c.Gs, got, v.Detail)
		out.Violation = v

		return out
	}

	out.Shape = fmt.Sprint(s.Decided, c.PerG, c.Explicit)
	out.NonTrivial = len(s.Decided) >= 2
	out.Probe("lazy-creation-raced", btoi(!c.Explicit))
	out.Sample = map[string]any{"callers": c.Gs, "ids": len(all), "decisions": len(s.Decided)}

	return out
}

func uniqueNonzero(ids []uint64) *kit.Violation {
	seen := map[uint64]int{}

	for i, id := range ids {
		if id == 0 {
			return kit.Violate("idgen", "C41:zero-id", "ID number %d handed out is 0", i)
		}

		if j, dup := seen[id]; dup {
			return kit.Violate("idgen", "C41:duplicate-id", "ID %d was handed out twice (draws %d and %d)", id, j, i)
		}

		seen[id] = i
	}

	return nil
}

func init() {
	kit.Register(kit.Spec[idCase]{
		ID: "C41", Level: "exploration",
		Rule: "half of the runs: 2-5 caller goroutines draw IDs from the process generator (sequential or parallel kind, created explicitly or lazily by the racing first calls, generator cached or looked up per draw) under the seeded scheduler with idgenerator.go woven, every ID must be nonzero and distinct; " +
			"other half: sequential histories of draws, checkpoint saves, in-place restores and restores into a rebuilt generator, executed twice: both executions must hand out the same sequence, IDs after a restore must repeat exactly what followed the save point, and none may repeat an ID from before it; distinct = decision list or history; non-trivial = >=2 scheduling decisions / >=2 IDs",
		Assumptions: []string{"atomic operations are single scheduler steps (sequentially consistent); weak-memory effects of the unsynchronised fast-path read in GetIDGenerator are left to the race detector", "a checkpoint is taken while no caller is inside Generate"},
		Real:        []string{"timing/idgenerator.go (woven)", "timing/idgenerator_checkpoint.go"},
		Stubs:       []string{"caller goroutines", "seeded scheduler"},
		FaultKinds:  []string{"checkpoint-restore"},
		Quick:       kit.Budget{Runs: 3000, WallS: 60, CaseS: 60},
		Thorough:    kit.Budget{Runs: 600000, WallS: 900, CaseS: 120},
		Gen:         genC41, Exec: execC41,
		Shrink: func(c idCase) []idCase {
			var out []idCase

			for _, l := range kit.ListShrinks(c.Ops) {
				q := c
				q.Ops = l
				out = append(out, q)
			}

			if c.Gs > 2 {
				q := c
				q.Gs--
				q.PerG, q.Cache, q.Decisions = c.PerG[:q.Gs], c.Cache[:q.Gs], nil
				out = append(out, q)
			}

			for g := range c.PerG {
				if c.PerG[g] > 1 {
					q := c
					q.PerG = append([]int(nil), c.PerG...)
					q.PerG[g]--
					q.Decisions = nil
					out = append(out, q)
				}
			}

			return out
		},
	})
}
