//go:build woven

package econc

import (
	"fmt"
	"sync"

	"github.com/sarchlab/akita/v5/hooking"
	"github.com/sarchlab/akita/v5/messaging"
	"github.com/sarchlab/akita/v5/timing"

	"verif/sim/kit"
	"verif/sim/sched"
)

func init() {
	messaging.VerifYield, messaging.VerifLock, messaging.VerifUnlock = sched.Yield, sched.Lock, sched.Unlock
	messaging.VerifCondWait, messaging.VerifCondBroadcast = sched.CondWait, sched.CondBroadcast
}

// PortCase: one real port used from its two sides at the same time, the way the
// parallel engine runs a connection's handler and the owner's handler together.
type PortCase struct {
	InCap     int    `json:"in_cap"`
	OutCap    int    `json:"out_cap"`
	NIn       int    `json:"n_in"`  // messages the connection side delivers
	NOut      int    `json:"n_out"` // messages the owner sends
	Hook      bool   `json:"hook"`
	Seed      uint64 `json:"seed"`
	Decisions []int  `json:"decisions,omitempty"`
}

type pmsg struct{ messaging.MsgMeta }

// flag is a wake-up flag with a modelled mutex/cond: a goroutine that finds
// nothing to do sleeps until the port notifies its side.
type flag struct {
	mu   sync.Mutex
	cond *sync.Cond
	set  bool
	n    int
}

func newFlag() *flag {
	f := &flag{}
	f.cond = sync.NewCond(&f.mu)

	return f
}

func (f *flag) raise() {
	sched.Lock(&f.mu, "flag.raise", true)
	f.mu.Lock()
	f.set = true
	f.n++
	sched.CondBroadcast(f.cond)
	f.mu.Unlock()
	sched.Unlock(&f.mu, true)
}

func (f *flag) wait() {
	sched.Lock(&f.mu, "flag.wait", true)
	f.mu.Lock()

	for !f.set {
		sched.CondWait(f.cond)
	}

	f.set = false
	f.mu.Unlock()
	sched.Unlock(&f.mu, true)
}

type portOwner struct {
	hooking.HookableBase
	*messaging.PortOwnerBase

	recv, free *flag
}

type countHook struct{}

func (countHook) Func(hooking.HookCtx) {}

func (o *portOwner) NotifyRecv(messaging.Port)     { o.recv.raise() }
func (o *portOwner) NotifyPortFree(messaging.Port) { o.free.raise() }
func (o *portOwner) Name() string                  { return "Owner" }
func (o *portOwner) Handle(timing.Event) error     { return nil }

type portConn struct {
	hooking.HookableBase

	send, avail *flag
}

func (c *portConn) NotifySend()                    { c.send.raise() }
func (c *portConn) NotifyAvailable(messaging.Port) { c.avail.raise() }
func (c *portConn) PlugIn(messaging.Port)          {}
func (c *portConn) Unplug(messaging.Port)          {}
func (c *portConn) Name() string                   { return "Conn" }

func genC11c(r *kit.Rand, _ kit.Tier) PortCase {
	return PortCase{InCap: r.PickInt(1, 1, 2, 3), OutCap: r.PickInt(1, 1, 2, 3), NIn: r.Range(0, 6), NOut: r.Range(0, 6), Hook: r.Chance(1, 3), Seed: r.Uint64()}
}

func execC11c(c PortCase, _ *kit.Env) kit.Outcome {
	var out kit.Outcome

	if c.NIn+c.NOut == 0 {
		c.NIn = 2
	}

	s := &sched.Sched{MaxSteps: 40000}
	s.YieldOnUnlock = sched.UnlockYields(c.Seed)
	s.Choose = sched.ListChooser(c.Decisions, sched.MixedChooser(c.Seed, s))

	if c.Decisions != nil {
		s.Choose = sched.ListChooser(c.Decisions, nil)
	}

	var (
		gotIn, gotOut []uint64
		panicked      any
		done          int
	)

	s.Finished = func() bool { return done == 4 }

	guard := func() {
		if r := recover(); r != nil && panicked == nil {
			panicked = r
		}

		done++
	}

	sched.Run(T, s, func(s *sched.Sched) {
		owner := &portOwner{PortOwnerBase: messaging.NewPortOwnerBase(), recv: newFlag(), free: newFlag()}
		conn := &portConn{send: newFlag(), avail: newFlag()}
		p := messaging.NewPort(owner, c.InCap, c.OutCap, "Owner.Port")
		p.SetConnection(conn)

		if c.Hook {
			p.AcceptHook(countHook{})
		}

		// connection side, delivering
		s.Go("conn-deliver", func() {
			defer guard()

			for i := 0; i < c.NIn; i++ {
				for !p.CanDeliver() {
					conn.avail.wait()
				}

				p.Deliver(pmsg{messaging.MsgMeta{ID: uint64(100 + i), Src: "Far.Port", Dst: p.AsRemote()}})
			}
		})

		// owner side, retrieving what was delivered
		s.Go("owner-retrieve", func() {
			defer guard()

			for len(gotIn) < c.NIn {
				m := p.RetrieveIncoming()
				if m == nil {
					owner.recv.wait()
					continue
				}

				gotIn = append(gotIn, m.Meta().ID)
			}
		})

		// owner side, sending
		s.Go("owner-send", func() {
			defer guard()

			for i := 0; i < c.NOut; i++ {
				for !p.CanSend() {
					owner.free.wait()
				}

				p.Send(pmsg{messaging.MsgMeta{ID: uint64(200 + i), Src: p.AsRemote(), Dst: "Far.Port"}})
			}
		})

		// connection side, forwarding what was sent
		s.Go("conn-forward", func() {
			defer guard()

			for len(gotOut) < c.NOut {
				m := p.RetrieveOutgoing()
				if m == nil {
					conn.send.wait()
					continue
				}

				gotOut = append(gotOut, m.Meta().ID)
			}
		})
	})

	out.Steps = uint64(s.Steps)

	switch {
	case s.CapHit:
		out.Inconclusive = "step-cap"
		return out
	case panicked != nil:
		out.Violation = kit.Violate("port-concurrent", "C11:concurrent-use-panics", "a port (capacities %d/%d) used by its connection and its owner at the same time panicked: %v", c.InCap, c.OutCap, panicked)
		return out
	case s.Deadlock != "":
		out.Violation = kit.Violate("port-concurrent", "C11:notification-lost-under-concurrency", "a port (capacities %d/%d) used by its connection and its owner at the same time: a side sleeps although there is work for it (retrieved %d of %d incoming, forwarded %d of %d outgoing): %s", c.InCap, c.OutCap, len(gotIn), c.NIn, len(gotOut), c.NOut, s.Deadlock)
		return out
	}

	for i, id := range gotIn {
		if id != uint64(100+i) {
			out.Violation = kit.Violate("port-concurrent", "C11:incoming-order-or-content-wrong[concurrent]", "incoming messages were retrieved as %v", gotIn)
			return out
		}
	}

	for i, id := range gotOut {
		if id != uint64(200+i) {
			out.Violation = kit.Violate("port-concurrent", "C11:outgoing-order-or-content-wrong[concurrent]", "outgoing messages were forwarded as %v", gotOut)
			return out
		}
	}

	out.Shape = fmt.Sprint(c.InCap, c.OutCap, c.NIn, c.NOut, s.Decided)
	out.NonTrivial = countChoices(s) >= 3
	out.Probe("scheduler-decisions-with-choice", countChoices(s))
	out.Sample = map[string]any{"capacities": []int{c.InCap, c.OutCap}, "incoming": c.NIn, "outgoing": c.NOut, "steps": s.Steps}

	return out
}

func init() {
	kit.Register(kit.Spec[PortCase]{
		ID: "C11", Level: "exploration",
		Rule:        "second part of C11 (the first part runs sequential histories in bin/simcheck): one real port (messaging/port.go woven) of capacities 1-3 used by four goroutines at once under the seeded scheduler - the connection delivering and forwarding, the owner retrieving and sending - each sleeping on a modelled condition until the port's notification for its side arrives; every message must come out once and in order, nothing may panic, and no side may be left asleep with work waiting (a lost NotifyRecv / NotifyPortFree / NotifySend / NotifyAvailable); distinct = decision list; non-trivial = >= 3 real scheduling choices",
		Assumptions: []string{"each side is one goroutine per direction, as a connection handler and a component handler are under the parallel engine"},
		Real:        []string{"messaging/port.go (woven)", "queueing.Buffer"},
		Stubs:       []string{"owner and connection (notification flags)", "seeded scheduler"},
		FaultKinds:  []string{},
		Quick:       kit.Budget{Runs: 4000, WallS: 60, CaseS: 60},
		Thorough:    kit.Budget{Runs: 600000, WallS: 600, CaseS: 120},
		Gen:         genC11c, Exec: execC11c,
		Shrink: func(c PortCase) []PortCase {
			var out []PortCase

			if c.NIn > 0 {
				q := c
				q.NIn--
				q.Decisions = nil
				out = append(out, q)
			}

			if c.NOut > 0 {
				q := c
				q.NOut--
				q.Decisions = nil
				out = append(out, q)
			}

			return out
		},
	})
}
