package emem

import (
	"sort"

	"github.com/sarchlab/akita/v5/tracing"

	"verif/sim/kit"
)

// ExtraAttach, when set, is called by Run on every assembly after the check's
// own OnBuilt: other packages use it to attach tracers to an unchanged check.
var ExtraAttach func(a *Asm)

// Domains returns every library component of the assembly that can be traced,
// in a fixed order.
func (a *Asm) Domains() []tracing.NamedHookable {
	var out []tracing.NamedHookable

	if a.Rob != nil {
		out = append(out, a.Rob)
	}

	var keys []int
	for k := range a.WB {
		keys = append(keys, k)
	}

	for k := range a.WT {
		keys = append(keys, k)
	}

	sort.Ints(keys)

	for _, k := range keys {
		if c, ok := a.WB[k]; ok {
			out = append(out, c)
		}

		if c, ok := a.WT[k]; ok {
			out = append(out, c)
		}
	}

	for _, c := range a.Ideal {
		out = append(out, c)
	}

	for _, c := range a.Banked {
		out = append(out, c)
	}

	for _, c := range a.Dram {
		out = append(out, c)
	}

	for _, c := range a.Conns {
		out = append(out, c)
	}

	return out
}

// GenC18Case and ExecC18Case expose the control-history runs of C18 (one agent
// under a generated pause/drain/reset/flush script) to other checks.
func GenC18Case(r *kit.Rand, tier kit.Tier) C18Case   { return genC18(r, tier) }
func ExecC18Case(c C18Case, env *kit.Env) kit.Outcome { return execC18(c, env) }
func ShrinkC18Case(c C18Case) []C18Case               { return shrinkC18(c) }
