package emem

import (
	"fmt"

	"verif/sim/kit"
)

func fillOutcome(out *kit.Outcome, c *Config, w *World, a *Asm) {
	out.Events = w.Events
	out.SimTimePs = uint64(a.Eng.CurrentTime())

	total, writes, masked := 0, 0, 0
	lines := map[uint64]bool{}
	stalls := 0

	for _, rc := range c.Reqs {
		total += len(rc.Ops)
		stalls += len(rc.Stalls)

		for _, op := range rc.Ops {
			lines[op.Addr/64] = true

			if op.Write {
				writes++

				if op.Mask != 0 {
					masked++
				}
			}
		}
	}

	for _, st := range a.Stubs {
		out.Fault("lower-response-reordered", st.Reordered)
		out.Fault("lower-response-delayed", st.Sent)
	}

	out.Fault("requester-stall-window", stalls)
	out.Fault("back-pressure(requester-send-blocked)", w.Probes["requester-send-blocked"])

	for k, v := range w.Probes {
		out.Probe(k, v)
	}

	capLines := 1 << 30
	for _, cc := range c.Caches {
		if n := cc.Sets * cc.Ways; n < capLines {
			capLines = n
		}
	}

	if len(c.Caches) > 0 && len(lines) > capLines {
		out.Probe("working-set-exceeds-smallest-cache(evictions)", 1)
	}

	out.Probe("masked-writes", masked)
	out.Probe("interleaved-lowers", btoi(c.Lower.Count > 1))
	out.Probe("rob-present", btoi(c.Rob != nil))
	out.Probe("two-level-cache", btoi(len(c.Caches) >= 2))
	out.Probe("lower:"+c.Lower.Kind, 1)

	for _, cc := range c.Caches {
		out.Probe("cache:"+cc.Kind, 1)
	}

	out.Shape = fmt.Sprintf("%s|%d|%d|%d", Describe(c), total, w.Events, out.SimTimePs)
	out.NonTrivial = total >= 4 && writes > 0 && writes < total
	out.Sample = map[string]any{"assembly": Describe(c), "requests": total, "writes": writes, "events": w.Events, "end_time_ps": out.SimTimePs}

	if w.CapHit {
		out.Inconclusive = "event-cap"
	}
}

func btoi(b bool) int {
	if b {
		return 1
	}

	return 0
}

func execC16(c Config, _ *kit.Env) kit.Outcome {
	var out kit.Outcome

	w := NewWorld()
	a := Run(&c, w)
	fillOutcome(&out, &c, w, a)
	out.Violation = classify(&c, w.V)

	return out
}

// classify makes the signature of a stale-read violation specific to the one
// configuration class with a known finding (a cache whose line is larger than
// the bank interleaving of the banked memory right below it, so that a line
// fill and a partial write of the same line are served by different banks), so
// that only that class can be listed in known_findings.json.
func classify(c *Config, v *kit.Violation) *kit.Violation {
	if v == nil || v.Sig != "C16:read-data" || len(c.Caches) == 0 || c.Lower.Kind != "banked" {
		return v
	}

	last := c.Caches[len(c.Caches)-1]
	if last.Log2Block > c.Lower.Log2IL && last.Kind != "wb" {
		v.Sig = "C16:read-data[line>bank-interleave," + last.Kind + "]"
	}

	return v
}

// C19Case is a cache run with an optional control script on the top cache.
type C19Case struct {
	Cfg   Config     `json:"cfg"`
	Steps []CtrlStep `json:"steps,omitempty"`
	// SharedPIDs: the operations belong to several processes that use the same
	// addresses (virtually tagged caches keep one copy per process; only the
	// directory invariants are judged then, not the data)
	SharedPIDs bool `json:"shared_pids,omitempty"`
}

func genC19(r *kit.Rand, t kit.Tier) C19Case {
	n := 1
	if r.Chance(1, 3) {
		n = 2
	}

	c := C19Case{Cfg: GenConfig(r, t, GenOpts{OnlyCaches: n})}

	if r.Chance(1, 3) {
		// pause / drain, invalidate or flush with filters, enable — in the middle of traffic
		tm := uint64(0)

		for i := 0; i < r.Range(1, 3); i++ {
			tm += uint64(r.PickInt(500, 2000, 5000, 20000, 60000))
			stop := r.PickInt(0, 0, 1) // pause twice as likely as drain: in-flight work stays frozen
			c.Steps = append(c.Steps, CtrlStep{Target: "L1", Cmd: stop, At: tm, Wait: true})
			verb := r.PickInt(4, 4, 5)
			st := CtrlStep{Target: "L1", Cmd: verb, Wait: true}

			if r.Chance(1, 2) {
				for k := 0; k < r.Range(1, 4); k++ {
					st.Addresses = append(st.Addresses, uint64(r.Intn(64))*64+uint64(r.PickInt(0, 4096, 65536-4096)))
				}
			}

			c.Steps = append(c.Steps, st, CtrlStep{Target: "L1", Cmd: 2, Wait: true})
		}
	}

	if r.Chance(1, 4) {
		c.SharedPIDs = true
		npid := r.Range(2, 3)

		for i := range c.Cfg.Reqs {
			for k := range c.Cfg.Reqs[i].Ops {
				c.Cfg.Reqs[i].Ops[k].PID = uint32(1 + r.Intn(npid))
			}
		}
	}

	return c
}

func execC19(cc C19Case, _ *kit.Env) kit.Outcome {
	var out kit.Outcome

	c := cc.Cfg
	w := NewWorld()
	InstallDirectoryMonitor(w, "C19")

	if cc.SharedPIDs {
		w.NoDataCheck = true
		out.Probe("several-processes-on-the-same-addresses", 1)
	}

	if len(cc.Steps) > 0 {
		// an invalidate may drop dirty lines of a write-back cache: the flat-memory
		// oracle does not apply, the directory invariants do
		w.NoDataCheck = true
		w.OnBuilt = func(a *Asm) { w.Ctrl = NewCtrlDriver(a, w, cc.Steps) }
	}

	a := Run(&c, w)
	fillOutcome(&out, &c, w, a)
	out.Fault("control-verb(pause|drain,invalidate|flush,enable)-mid-traffic", len(cc.Steps))

	if w.V != nil && len(w.V.Sig) >= 3 && w.V.Sig[:3] == "C19" {
		out.Violation = w.V
	}

	return out
}

// ShrinkConfig proposes simpler configurations.
func ShrinkConfig(c Config) []Config {
	var out []Config

	for i := range c.Reqs {
		for _, l := range kit.ListShrinks(c.Reqs[i].Ops) {
			if len(l) == 0 {
				continue
			}

			q := c
			q.Reqs = append([]ReqCfg(nil), c.Reqs...)
			q.Reqs[i].Ops = l
			out = append(out, q)
		}

		if len(c.Reqs[i].Stalls) > 0 {
			q := c
			q.Reqs = append([]ReqCfg(nil), c.Reqs...)
			q.Reqs[i].Stalls = nil
			out = append(out, q)
		}

		if c.Reqs[i].MaxOutstanding > 1 {
			q := c
			q.Reqs = append([]ReqCfg(nil), c.Reqs...)
			q.Reqs[i].MaxOutstanding = c.Reqs[i].MaxOutstanding / 2
			out = append(out, q)
		}
	}

	if len(c.Reqs) > 1 {
		for i := range c.Reqs {
			q := c
			q.Reqs = kit.DropAt(c.Reqs, i)
			out = append(out, q)
		}
	}

	if c.Rob != nil {
		q := c
		q.Rob = nil
		out = append(out, q)
	}

	if len(c.Caches) > 1 {
		for i := range c.Caches {
			q := c
			q.Caches = kit.DropAt(c.Caches, i)
			out = append(out, q)
		}
	}

	if c.Lower.Count > 1 {
		q := c
		q.Lower.Count = 1
		out = append(out, q)
	}

	if c.Lower.Kind != "ideal" {
		q := c
		q.Lower.Kind = "ideal"
		q.Lower.Latency, q.Lower.Width, q.Lower.FreqHz = 5, 1, 1_000_000_000
		out = append(out, q)
	}

	for i := range c.Reqs {
		for k, op := range c.Reqs[i].Ops {
			if op.Mask != 0 {
				q := c
				q.Reqs = append([]ReqCfg(nil), c.Reqs...)
				q.Reqs[i].Ops = append([]Op(nil), c.Reqs[i].Ops...)
				q.Reqs[i].Ops[k].Mask = 0
				out = append(out, q)

				break
			}
		}
	}

	return out
}

const memRule = "random assemblies: 1-3 scripted requesters -> [ROB] -> 0-2 cache levels (write-back / write-around / write-evict / write-through; 1-16 sets x 1-8 ways x 64|128 B, MSHR 1-16, 1-4 banks, small buffers favoured) -> 1|2|4 interleaved ideal / banked / DRAM-preset controllers over real direct connections, mixed clock periods in 1/3 of the runs; " +
	"request scripts of reads and full-line / partial / masked writes on 2-64 hot lines with unique data per write, max outstanding 1-32, never two in-flight requests on one byte, requester stall windows; "

func init() {
	real := []string{"mem/cache/writeback", "mem/cache/writethroughcache (3 write policies)", "mem/rob", "mem/idealmemcontroller", "mem/simplebankedmemory", "mem/dram (all presets)", "mem.Storage", "noc/directconnection", "messaging.Port", "timing.SerialEngine"}
	stubs := []string{"requesters (harness scripts + flat-memory oracle)", "adversarial lower memory (1 run in 8): flat-memory semantics, seeded delays, reordered responses"}
	faults := []string{"requester-stall-window", "back-pressure(requester-send-blocked)", "lower-response-delayed", "lower-response-reordered"}

	kit.Register(kit.Spec[Config]{
		ID: "C16", Level: "exploration",
		Rule: memRule + "oracle: every read returns the flat-memory bytes fixed at issue, one response of the matching kind per request with Dst = sender and RspTo = its ID, no unsolicited/duplicate response, nothing outstanding at quiescence; " +
			"distinct = hash of (assembly, request count, events handled, end time); non-trivial = >= 4 requests mixing reads and writes",
		Assumptions: []string{"configuration domain: block sizes do not shrink downwards, inter-module interleaving >= the largest block size above it, requests are 4-byte aligned and stay inside one 64-byte chunk", "no loss / duplication is injected (connections are lossless by contract)"},
		Real:        real, Stubs: stubs, FaultKinds: faults,
		Quick:    kit.Budget{Runs: 20000, WallS: 100, CaseS: 120},
		Thorough: kit.Budget{Runs: 300000, WallS: 1500, CaseS: 300},
		Gen:      genC16,
		Exec:     execC16, Shrink: ShrinkConfig,
	})
	kit.Register(kit.Spec[C19Case]{
		ID: "C19", Level: "exploration",
		Rule: memRule + "1 run in 3 adds pause|drain -> invalidate|flush (with address filters) -> enable on the top cache in the middle of the traffic; monitor after every event handled by a cache: each set's recency order is a permutation of its ways, no two valid blocks with equal (process, line), every valid block sits in the set its line maps to, reader counts >= 0; " +
			"distinct = hash of (assembly, request count, events handled, end time); non-trivial = >= 4 requests mixing reads and writes",
		Assumptions: []string{"the directory is read from the exported component State after each handled event"},
		Real:        real, Stubs: stubs, FaultKinds: faults,
		Quick:    kit.Budget{Runs: 15000, WallS: 100, CaseS: 120},
		Thorough: kit.Budget{Runs: 300000, WallS: 1500, CaseS: 300},
		Gen:      genC19,
		Exec:     execC19,
		Shrink: func(c C19Case) []C19Case {
			var out []C19Case
			for _, q := range ShrinkConfig(c.Cfg) {
				if len(q.Caches) == 0 {
					continue
				}

				out = append(out, C19Case{Cfg: q, Steps: c.Steps, SharedPIDs: c.SharedPIDs})
			}

			if len(c.Steps) > 0 {
				out = append(out, C19Case{Cfg: c.Cfg, SharedPIDs: c.SharedPIDs})
			}

			return out
		},
	})
}
