package emem

import "verif/sim/kit"

// genC16 is GenConfig plus, in one run out of eight, a response back-pressure
// scenario: one write-around / write-evict / write-through cache that takes four
// requests per cycle directly above an ideal controller that serves four
// requests per cycle through a Top port letting one response out at a time, with
// requesters working on a handful of lines (partial writes, reads of other bytes
// of the same line, then reads of the written bytes).
func genC16(r *kit.Rand, t kit.Tier) Config {
	c := GenConfig(r, t, GenOpts{OnlyCaches: -1})

	if !r.Chance(1, 8) {
		return c
	}

	c.Rob = nil
	c.Caches = []CacheCfg{{
		Kind: []string{"write-around", "write-evict", "write-through"}[r.Intn(3)], Log2Block: 6,
		Ways: r.PickInt(2, 4), Sets: r.PickInt(4, 16), Banks: r.PickInt(1, 2, 4), MSHR: r.PickInt(4, 16),
		BankLatency: r.PickInt(1, 2, 10), DirLatency: r.PickInt(1, 2), ReqPerCycle: 4, WriteBufCap: 1024,
		MaxFetch: 128, MaxEvict: 128, MaxTrans: 16, FreqHz: 1_000_000_000, PortBuf: 16,
	}}
	c.Lower = LowerCfg{Kind: "ideal", Count: 1, Interleave: 4096, Latency: r.PickInt(3, 10, 20), Width: 4,
		FreqHz: 1_000_000_000, PortBuf: 16, TopOutBuf: 1}
	c.OneConn, c.ConnFreqHz = r.Bool(), 1_000_000_000

	nreq := r.Range(1, 3)
	c.Reqs = nil
	base := uint64(r.Intn(16)) * 4096

	for i := 0; i < nreq; i++ {
		rc := ReqCfg{MaxOutstanding: r.PickInt(4, 8), PortBuf: 16, FreqHz: 1_000_000_000}

		for k := 0; k < r.Range(4, 24); k++ {
			line := base + uint64(r.Intn(6))*64
			off := uint64(r.Intn(16)) * 4
			op := Op{Addr: line + off, Size: 4}

			switch r.Intn(3) {
			case 0:
				op.Write = true
			case 1:
				op.Size = r.PickInt(4, 8, 16)
				if off+uint64(op.Size) > 64 {
					op.Addr = line
				}
			}

			rc.Ops = append(rc.Ops, op)
		}

		c.Reqs = append(c.Reqs, rc)
	}

	return c
}
