package emem

import (
	"fmt"
	"sort"

	"github.com/sarchlab/akita/v5/mem/cache"
	"github.com/sarchlab/akita/v5/mem/memcontrolprotocol"

	"verif/props/tracelog"
	"verif/sim/kit"
)

// C17Case is a hierarchy run plus a drain/flush script.
type C17Case struct {
	Cfg      Config     `json:"cfg"`
	Steps    []CtrlStep `json:"steps"`
	Filtered bool       `json:"filtered"`
}

// BackingByte reads one byte from the backing memory that owns the address.
func (a *Asm) BackingByte(addr uint64) (byte, error) {
	idx := 0
	if a.Cfg.Lower.Count > 1 {
		idx = int(addr / a.Cfg.Lower.Interleave % uint64(a.Cfg.Lower.Count))
	}

	if len(a.Stubs) > 0 {
		return a.Stubs[idx].Byte(addr), nil
	}

	b, err := a.Stores[idx].Read(addr, 1)
	if err != nil {
		return 0, err
	}

	return b[0], nil
}

func cacheNames(c *Config) []string {
	var n []string
	for i := range c.Caches {
		n = append(n, fmt.Sprintf("L%d", i+1))
	}

	return n
}

// GenC17 draws a drain/flush case (also used by the determinism check).
func GenC17(r *kit.Rand, tier kit.Tier) C17Case {
	var c C17Case

	c.Filtered = r.Chance(1, 3)

	if c.Filtered {
		c.Cfg = GenConfig(r, tier, GenOpts{ForceWB: true, OnlyCaches: 1, NoRob: true, NoStub: true, NoDram: true})
		c.Cfg.Caches[0].Kind = "wb"
		c.Cfg.Lower.Kind, c.Cfg.Lower.Count = "ideal", 1
		c.Cfg.Lower.Latency, c.Cfg.Lower.Width, c.Cfg.Lower.FreqHz = r.PickInt(1, 5, 20), r.PickInt(1, 2), 1_000_000_000

		// several processes, each in its own address region
		npid := r.Range(1, 3)

		for i := range c.Cfg.Reqs {
			for k := range c.Cfg.Reqs[i].Ops {
				pid := uint32(1 + r.Intn(npid))
				op := &c.Cfg.Reqs[i].Ops[k]
				op.PID = pid
				op.Addr = op.Addr%4096 + uint64(pid)*8192
			}
		}

		var addrs []uint64

		if r.Chance(2, 3) {
			block := uint64(1) << c.Cfg.Caches[0].Log2Block
			seen := map[uint64]bool{}

			for _, rc := range c.Cfg.Reqs {
				for _, op := range rc.Ops {
					if r.Chance(1, 3) && !seen[op.Addr/block*block] {
						seen[op.Addr/block*block] = true
						if r.Bool() {
							addrs = append(addrs, op.Addr/block*block)
						} else {
							addrs = append(addrs, op.Addr) // any address inside the line names the line
						}
					}
				}
			}
		}

		pid := uint32(0)
		if r.Chance(1, 2) {
			pid = uint32(1 + r.Intn(npid))
		}

		c.Steps = []CtrlStep{
			{Target: "L1", Cmd: int(memcontrolprotocol.CmdDrain), Wait: true, Mark: "drained"},
			{Target: "L1", Cmd: int(memcontrolprotocol.CmdFlush), Wait: true, Addresses: addrs, PID: pid, Mark: "filtered-flushed"},
			{Target: "L1", Cmd: int(memcontrolprotocol.CmdEnable), Wait: true},
		}
	} else {
		c.Cfg = GenConfig(r, tier, GenOpts{ForceWB: true, OnlyCaches: -1})
		names := cacheNames(&c.Cfg)

		for i, n := range names {
			c.Steps = append(c.Steps, CtrlStep{Target: n, Cmd: int(memcontrolprotocol.CmdDrain), Wait: true})
			st := CtrlStep{Target: n, Cmd: int(memcontrolprotocol.CmdFlush), Wait: true}

			if i == len(names)-1 {
				st.Mark = "all-flushed"
			}

			c.Steps = append(c.Steps, st)
		}

		for i := len(names) - 1; i >= 0; i-- {
			c.Steps = append(c.Steps, CtrlStep{Target: names[i], Cmd: int(memcontrolprotocol.CmdEnable), Wait: true})
		}
	}

	if r.Chance(1, 2) {
		c.Steps[0].AfterWork = true
	} else {
		c.Steps[0].At = uint64(r.PickInt(1000, 5000, 20000, 60000, 200000))
	}

	return c
}

type dirSnap struct {
	set, way int
	b        cache.BlockState
}

func snapshotDir(ds *cache.DirectoryState) []dirSnap {
	var out []dirSnap

	for si := range ds.Sets {
		for wi, b := range ds.Sets[si].Blocks {
			if b.IsValid {
				cp := b
				cp.DirtyMask = append([]bool(nil), b.DirtyMask...)
				out = append(out, dirSnap{si, wi, cp})
			}
		}
	}

	return out
}

func execC17(c C17Case, _ *kit.Env) kit.Outcome {
	var out kit.Outcome

	w := NewWorld()

	var snap []dirSnap

	checked, dirtyAtFlush, midTraffic := 0, 0, false

	w.OnBuilt = func(a *Asm) {
		d := NewCtrlDriver(a, w, c.Steps)
		w.Ctrl = d
		d.OnAck = func(d *CtrlDriver, ack CtrlAck, step CtrlStep) {
			if !ack.Rsp.Success {
				w.fail("control-monitor", "C17:control-refused", "%s refused command %d: %q", step.Target, step.Cmd, ack.Rsp.Error)
				return
			}

			for _, r := range a.Reqs {
				if !r.Finished() {
					midTraffic = true
				}
			}

			switch step.Mark {
			case "drained":
				snap = snapshotDir(&a.WB[0].State.DirectoryState)
				for _, s := range snap {
					if s.b.IsDirty {
						dirtyAtFlush++
					}
				}
			case "all-flushed":
				var addrs []uint64
				for addr := range w.Written {
					addrs = append(addrs, addr)
				}

				sort.Slice(addrs, func(i, j int) bool { return addrs[i] < addrs[j] })

				for _, addr := range addrs {
					if w.WriteInflight[addr] > 0 {
						continue // an unacknowledged write may or may not have landed
					}

					got, err := a.BackingByte(addr)
					if err != nil {
						w.fail("backing-memory", "C17:backing-read-error", "backing memory read %#x: %v", addr, err)
						return
					}

					checked++

					if got != w.Acked[addr] {
						w.fail("backing-memory", "C17:stale-backing-memory",
							"after draining and flushing every cache (acked at t=%d) backing memory holds %#02x at %#x, the most recent acknowledged write put %#02x there",
							ack.Time, got, addr, w.Acked[addr])

						return
					}
				}
			case "filtered-flushed":
				wb := a.WB[0]
				spec := wb.Spec()
				block := uint64(1) << spec.Log2BlockSize
				match := map[uint64]bool{}

				for _, x := range step.Addresses {
					match[x/block*block] = true
				}

				for _, s := range snap {
					nb := wb.State.DirectoryState.Sets[s.set].Blocks[s.way]
					if !nb.IsValid || nb.Tag != s.b.Tag || nb.PID != s.b.PID {
						w.fail("flush-filter", "C17:flush-invalidated-line", "filtered flush: line %#x (pid %d) was valid before the flush and is gone or replaced after it", s.b.Tag, s.b.PID)
						return
					}

					matches := (len(step.Addresses) == 0 || match[s.b.Tag]) && (step.PID == 0 || s.b.PID == step.PID)

					switch {
					case s.b.IsDirty && matches && nb.IsDirty:
						w.fail("flush-filter", "C17:matching-line-still-dirty", "filtered flush (addresses %v pid %d): dirty line %#x (pid %d) matches the filter but is still dirty", step.Addresses, step.PID, s.b.Tag, s.b.PID)
						return
					case s.b.IsDirty && !matches && !nb.IsDirty:
						w.fail("flush-filter", "C17:non-matching-line-cleaned", "filtered flush (addresses %v pid %d): dirty line %#x (pid %d) does not match the filter but is clean now", step.Addresses, step.PID, s.b.Tag, s.b.PID)
						return
					}

					if s.b.IsDirty && matches {
						for i := uint64(0); i < block; i++ {
							addr := s.b.Tag + i
							if !w.Written[addr] || w.WriteInflight[addr] > 0 {
								continue
							}

							got, _ := a.BackingByte(addr)
							checked++

							if got != w.Acked[addr] {
								w.fail("backing-memory", "C17:flushed-line-not-in-memory", "filtered flush wrote line %#x back, but backing memory holds %#02x at %#x instead of %#02x", s.b.Tag, got, addr, w.Acked[addr])
								return
							}
						}
					}
				}
			}
		}
	}

	a := Run(&c.Cfg, w)
	fillOutcome(&out, &c.Cfg, w, a)

	if w.V == nil && !w.CapHit && !w.Ctrl.Done() {
		w.fail("control-monitor", "C17:control-script-stuck", "run ended at t=%d with the drain/flush script at step %d of %d (an acknowledgment never came)", a.Eng.CurrentTime(), w.Ctrl.next, len(c.Steps))
	}

	out.Violation = w.V
	if out.Violation != nil && len(out.Violation.Sig) > 3 && out.Violation.Sig[:3] == "C16" {
		// requester-level failures belong to C16; here they still fail the run because the
		// statement requires the hierarchy to keep working around the flush
		out.Violation.Sig = "C17:via-" + out.Violation.Sig
	}

	out.Fault("control-verb(drain|flush|enable)", len(w.Ctrl.Acks))
	out.Fault("flush-mid-traffic", btoi(midTraffic))
	out.Probe("backing-bytes-compared", checked)
	out.Probe("dirty-lines-at-filtered-flush", dirtyAtFlush)
	out.Probe("filtered-flush", btoi(c.Filtered))
	out.NonTrivial = checked > 0
	out.Shape = fmt.Sprintf("%s|%v|%d", out.Shape, c.Filtered, checked)

	return out
}

func init() {
	kit.Register(kit.Spec[C17Case]{
		ID: "C17", Level: "exploration",
		Rule: memRule + "with at least one write-back cache; a control driver drains and flushes every cache top-down (after the workload, or at a seeded instant in the middle of it) and awaits every acknowledgment, then compares every written byte without an unacknowledged write in flight in the backing storage with the flat memory of acknowledged writes, " +
			"re-enables the caches and lets the workload finish under the C16 oracle; 1 run in 3 is a filtered flush (address list and/or process ID) on one write-back cache over ideal memory with 1-3 processes, checked against the directory snapshot taken at the drain acknowledgment; " +
			"distinct = hash of (assembly, requests, events, end time, filtered, bytes compared); non-trivial = at least one backing byte compared",
		Assumptions: []string{"each process uses its own address region (the hierarchy has no coherence between process IDs)", "bytes with an unacknowledged write in flight at the flush are not compared"},
		Real:        []string{"mem/cache/writeback (flusher, control middleware)", "mem/cache/writethroughcache", "mem/rob", "ideal/banked/DRAM controllers", "noc/directconnection"},
		Stubs:       []string{"requesters", "control driver", "adversarial lower memory (1 run in 8)"},
		FaultKinds:  []string{"control-verb(drain|flush|enable)", "flush-mid-traffic", "requester-stall-window", "back-pressure(requester-send-blocked)", "lower-response-delayed", "lower-response-reordered"},
		Quick:       kit.Budget{Runs: 12000, WallS: 100},
		Thorough:    kit.Budget{Runs: 600000, WallS: 1500, CaseS: 300},
		Gen:         GenC17, Exec: execC17,
		Shrink: func(c C17Case) []C17Case {
			var out []C17Case
			for _, q := range ShrinkConfig(c.Cfg) {
				if len(q.Caches) != len(c.Cfg.Caches) {
					continue // the script names the caches
				}

				hasWB := false
				for _, cc := range q.Caches {
					if cc.Kind == "wb" {
						hasWB = true
					}
				}

				if !hasWB {
					continue
				}

				out = append(out, C17Case{Cfg: q, Steps: c.Steps, Filtered: c.Filtered})
			}

			return out
		},
	})
}

// TraceRun executes a configuration (with an optional control script) with a
// trace log attached to the engine and to every port, and returns the log
// followed by the requesters' response records (C03, C33).
func TraceRun(cfg *Config, steps []CtrlStep, attach func(a *Asm)) (*tracelog.Log, *World, *Asm) {
	w := NewWorld()
	w.NoDataCheck = true
	l := &tracelog.Log{}
	w.OnBuilt = func(a *Asm) {
		if len(steps) > 0 {
			w.Ctrl = NewCtrlDriver(a, w, steps)
		}

		l.Attach(a.Eng, a.Ports)

		if attach != nil {
			attach(a)
		}
	}

	a := Run(cfg, w)

	for _, r := range w.Resp {
		l.Lines = append(l.Lines, fmt.Sprintf("R %d %d %d %v %x", r.Req, r.Ord, r.Time, r.Write, r.Data))
	}

	return l, w, a
}
