package emem

import (
	"fmt"

	"github.com/sarchlab/akita/v5/mem/dram"

	"verif/sim/kit"
)

// C22Case is a DRAM controller directly under the requesters.
type C22Case struct {
	Cfg Config `json:"cfg"`
	// Overlap: a single requester that keeps overlapping requests (also larger
	// than one access unit and unaligned) in flight.
	Overlap bool `json:"overlap,omitempty"`
}

type dramCmd struct {
	tick uint64
	kind string
	row  uint64
}

type bankTrack struct {
	open     bool
	row      uint64
	lastAct  uint64
	hasAct   bool
	lastPre  uint64 // explicit precharge or auto-precharge column command
	hasPre   bool
	lastKind string
	hist     []dramCmd
}

func genC22(r *kit.Rand, tier kit.Tier) C22Case {
	cfg := GenConfig(r, tier, GenOpts{NoRob: true, NoStub: true, MaxOps: 60})
	cfg.Caches, cfg.Rob = nil, nil
	FillLower(r, &cfg.Lower, "dram", false)
	cfg.Lower.Count = 1
	cfg.Lower.Kind = "dram"

	if cfg.Lower.TransQ > 0 && cfg.Lower.TransQ < 8 {
		cfg.Lower.TransQ = 8
	}

	// one run in three: separate read and write queues with write-drain mode
	// (non-default), small enough for the watermarks to be crossed
	if r.Chance(1, 3) {
		cfg.Lower.RWQueue = r.PickInt(4, 8, 16)
		cfg.Lower.WriteHigh = r.PickInt(1, 2, cfg.Lower.RWQueue/2)
		cfg.Lower.WriteLow = r.Intn(cfg.Lower.WriteHigh)
	}

	// address streams with DRAM-relevant locality: runs inside a row, strides that
	// come back to the same bank with another row, scattered accesses
	for i := range cfg.Reqs {
		base := uint64(r.Intn(64)) << 14
		stride := uint64(r.PickInt(64, 64, 256, 4096, 1<<13, 1<<16, 1<<20))

		for k := range cfg.Reqs[i].Ops {
			op := &cfg.Reqs[i].Ops[k]

			switch r.Intn(4) {
			case 0:
				op.Addr = base + uint64(k%16)*64
			case 1:
				op.Addr = base + uint64(r.Intn(8))*stride
			case 2:
				op.Addr = uint64(r.Intn(1<<18)) * 64
			}

			op.Addr &^= 3

			if op.Size > 64 {
				op.Size = 64
			}

			if op.Addr%64+uint64(op.Size) > 64 {
				op.Addr -= op.Addr % 64
			}
		}
	}

	cc := C22Case{Cfg: cfg}

	if r.Chance(1, 2) {
		cc.Overlap = true
		cc.Cfg.Reqs = cc.Cfg.Reqs[:1]
		rq := &cc.Cfg.Reqs[0]
		rq.MaxOutstanding = r.PickInt(2, 4, 8, 16)
		base := uint64(r.Intn(64)) << 13

		for k := range rq.Ops {
			op := &rq.Ops[k]
			op.Mask = 0

			if r.Chance(1, 2) {
				// a small neighbourhood, so that requests overlap: around a boundary
				// between access units / banks
				op.Addr = base + 8192 - 256 + uint64(r.Intn(128))*4
				op.Size = r.PickInt(4, 16, 64, 64, 128, 128, 192, 256)
			}
		}
	}

	return cc
}

func execC22(cc C22Case, _ *kit.Env) kit.Outcome {
	var out kit.Outcome

	c := cc.Cfg
	w := NewWorld()
	w.AllowOverlap = cc.Overlap && len(c.Reqs) == 1
	banks := map[[3]uint64]*bankTrack{}
	cmds, acts := 0, 0
	kinds := map[string]int{}

	var spec dram.Spec

	var rankActs map[uint64][]uint64

	w.OnBuilt = func(a *Asm) {
		spec = a.Dram[0].Spec()
		rankActs = map[uint64][]uint64{}
	}

	// GDDR and HBM parts have separate activate-to-read and activate-to-write
	// delays; DDR parts have one tRCD, reduced by the additive latency
	split := c.Lower.Preset == "HBM2" || c.Lower.Preset == "HBM3" || c.Lower.Preset == "GDDR6"

	actToRead := func() int {
		if split {
			return spec.TRCDRD
		}

		return spec.TRCD - spec.TAL
	}
	actToWrite := func() int {
		if split {
			return spec.TRCDWR
		}

		return spec.TRCD - spec.TAL
	}

	dram.VerifCommandObserver = func(comp string, tick uint64, kind string, rank, bg, bank, row, col uint64) {
		cmds++
		kinds[kind]++

		key := [3]uint64{rank, bg, bank}
		b := banks[key]

		if b == nil {
			b = &bankTrack{}
			banks[key] = b
		}

		b.hist = append(b.hist, dramCmd{tick, kind, row})
		if len(b.hist) > 6 {
			b.hist = b.hist[len(b.hist)-6:]
		}

		where := fmt.Sprintf("%s rank %d group %d bank %d (%s, %s page policy)", comp, rank, bg, bank, c.Lower.Preset, map[bool]string{true: "open", false: "close"}[c.Lower.OpenPage])
		gap := func(since uint64) int { return int(tick - since) }

		switch kind {
		case "ACT":
			acts++

			if b.open {
				w.fail("dram-protocol", "C22:activate-on-open-bank", "%s: ACT row %d at tick %d while row %d is open (recent commands %v)", where, row, tick, b.row, b.hist)
			}

			if b.hasPre && gap(b.lastPre) < spec.TRP {
				w.fail("dram-protocol", "C22:precharge-to-activate-too-short", "%s: ACT at tick %d, %d ticks after the precharge at tick %d; tRP=%d (recent commands %v)", where, tick, gap(b.lastPre), b.lastPre, spec.TRP, b.hist)
			}

			if b.hasAct && spec.TRC > 0 && gap(b.lastAct) < spec.TRC {
				w.fail("dram-protocol", "C22:activate-to-activate-too-short", "%s: ACT at tick %d, %d ticks after the previous ACT of this bank; tRC=%d", where, tick, gap(b.lastAct), spec.TRC)
			}

			if h := rankActs[rank]; spec.TFAW > 0 && len(h) >= 4 && int(tick-h[len(h)-4]) < spec.TFAW {
				w.fail("dram-protocol", "C22:four-activate-window-violated", "%s: fifth ACT of rank %d at tick %d, the fourth-last was at tick %d; tFAW=%d", where, rank, tick, h[len(h)-4], spec.TFAW)
			}

			rankActs[rank] = append(rankActs[rank], tick)
			b.open, b.row, b.lastAct, b.hasAct = true, row, tick, true
		case "RD", "RDA", "WR", "WRA":
			if !b.open {
				w.fail("dram-protocol", "C22:column-command-on-closed-bank", "%s: %s row %d at tick %d with no row open (recent commands %v)", where, kind, row, tick, b.hist)
			} else if b.row != row {
				w.fail("dram-protocol", "C22:column-command-on-wrong-row", "%s: %s row %d at tick %d while row %d is open (recent commands %v)", where, kind, row, tick, b.row, b.hist)
			}

			min := actToRead()
			if kind[0] == 'W' {
				min = actToWrite()
			}

			if b.hasAct && gap(b.lastAct) < min {
				w.fail("dram-protocol", "C22:activate-to-column-too-short", "%s: %s at tick %d, %d ticks after the ACT at tick %d; the configured minimum is %d", where, kind, tick, gap(b.lastAct), b.lastAct, min)
			}

			if kind == "RDA" || kind == "WRA" {
				b.open, b.lastPre, b.hasPre = false, tick, true
			}
		case "PRE":
			if !b.open {
				w.fail("dram-protocol", "C22:precharge-on-closed-bank", "%s: PRE at tick %d with no row open (recent commands %v)", where, tick, b.hist)
			}

			if b.hasAct && gap(b.lastAct) < spec.TRAS {
				w.fail("dram-protocol", "C22:activate-to-precharge-too-short", "%s: PRE at tick %d, %d ticks after the ACT at tick %d; tRAS=%d", where, tick, gap(b.lastAct), b.lastAct, spec.TRAS)
			}

			b.open, b.lastPre, b.hasPre = false, tick, true
		}

		b.lastKind = kind
	}

	defer func() { dram.VerifCommandObserver = nil }()

	a := Run(&c, w)
	fillOutcome(&out, &c, w, a)

	if w.V != nil && len(w.V.Sig) > 3 && w.V.Sig[:3] == "C16" {
		w.V.Sig = "C22:via-" + w.V.Sig
	}

	out.Violation = w.V
	out.Probe("dram-commands", cmds)
	out.Probe("activates", acts)

	for k, n := range kinds {
		out.Probe("cmd:"+k, n)
	}

	out.Probe("preset:"+c.Lower.Preset, 1)
	out.NonTrivial = acts >= 2
	out.Shape = fmt.Sprintf("%s|%d|%d|%v", out.Shape, cmds, acts, kinds)

	return out
}

func init() {
	kit.Register(kit.Spec[C22Case]{
		ID: "C22", Level: "exploration",
		Rule:        "a real DRAM controller (DDR4, DDR5, HBM2, HBM3, GDDR6 and default presets, open and close page policy, generated transaction and command queue sizes) directly under 1-3 scripted requesters with row-local, bank-conflicting and scattered address streams, reads, full and masked writes; half of the runs use one requester that keeps overlapping requests of 4..256 bytes (crossing access units and banks) in flight; the verif command observer reports every issued command with its decoded location and a per-bank state machine checks: ACT only on a closed bank, column commands only on the open row, PRE only on an open bank, ACT-to-RD/WR >= tRCD-tAL (tRCDRD/tRCDWR where configured), ACT-to-PRE >= tRAS, PRE-to-ACT >= tRP, ACT-to-ACT >= tRC where configured, four-activate window >= tFAW; every request completes and read data equals the flat-memory model (C16's oracles); distinct = assembly, script and command mix; non-trivial = >= 2 activates",
		Assumptions: []string{"timing separations are taken from the built component's Spec (the configured values), not from its derived timing tables", "refresh is modelled by the component as a stall without commands and is not judged"},
		Real:        []string{"mem/dram (scheduler, bank state, timing tables, queues, respond path)", "noc/directconnection"},
		Stubs:       []string{"requesters"},
		FaultKinds:  []string{"requester-stall"},
		Quick:       kit.Budget{Runs: 600, WallS: 100},
		Thorough:    kit.Budget{Runs: 150000, WallS: 1500},
		Gen:         genC22, Exec: execC22,
		Shrink: func(c C22Case) []C22Case {
			var out []C22Case
			for _, s := range ShrinkConfig(c.Cfg) {
				if c.Overlap && len(s.Reqs) != 1 {
					continue
				}

				out = append(out, C22Case{Cfg: s, Overlap: c.Overlap})
			}

			return out
		},
	})
}
