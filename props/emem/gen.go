package emem

import (
	"fmt"

	"github.com/sarchlab/akita/v5/mem/cache"
	"github.com/sarchlab/akita/v5/mem/vm"

	"verif/sim/kit"
)

func vmPID(p uint32) vm.PID { return vm.PID(p) }

var memFreqs = []uint64{1_000_000_000, 1_000_000_000, 1_000_000_000, 500_000_000, 750_000_000, 2_000_000_000}

// GenOpts steers the generator for the different properties that share it.
type GenOpts struct {
	ForceWB    bool // at least one write-back cache
	NoDram     bool
	MaxOps     int
	NoRob      bool
	OnlyCaches int  // -1: any
	Stub       bool // force the adversarial stub as lower memory
	NoStub     bool
}

// GenConfig draws a random hierarchy and request scripts.
func GenConfig(r *kit.Rand, tier kit.Tier, o GenOpts) Config {
	var c Config

	mixed := r.Chance(1, 3)
	freq := func() uint64 {
		if mixed {
			return memFreqs[r.Intn(len(memFreqs))]
		}

		return 1_000_000_000
	}

	c.ConnFreqHz = freq()
	c.OneConn = r.Chance(1, 3)
	small := r.Chance(2, 3) // favour tiny geometries: misses, evictions, back-pressure
	buf := func() int {
		if small {
			return r.PickInt(1, 1, 2, 4)
		}

		return r.PickInt(2, 4, 8, 16)
	}

	// caches
	nc := r.Weighted(2, 5, 3)
	if o.OnlyCaches >= 0 {
		nc = o.OnlyCaches
	}

	if o.ForceWB && nc == 0 {
		nc = 1
	}

	block := uint64(6)
	kinds := []string{"wb", "wb", "write-around", "write-evict", "write-through"}

	for i := 0; i < nc; i++ {
		if r.Chance(1, 4) {
			block = 7
		}

		cc := CacheCfg{
			Kind: kinds[r.Intn(len(kinds))], Log2Block: block, FreqHz: freq(), PortBuf: buf(),
			ReqPerCycle: r.PickInt(1, 1, 2, 4),
		}

		if small {
			cc.Ways, cc.Sets = r.PickInt(1, 2, 2, 4), r.PickInt(1, 2, 2, 4)
			cc.MSHR = r.PickInt(1, 1, 2, 4)
			cc.Banks = r.PickInt(1, 1, 2)
			cc.BankLatency = r.PickInt(1, 2, 3, 10)
			cc.DirLatency = r.PickInt(0, 1, 2)
			cc.WriteBufCap = r.PickInt(1, 2, 4, 1024)
			cc.MaxFetch = r.PickInt(1, 2, 4, 128)
			cc.MaxEvict = r.PickInt(1, 2, 4, 128)
			cc.MaxTrans = r.PickInt(1, 2, 4, 16)
		} else {
			cc.Ways, cc.Sets = r.PickInt(2, 4, 8), r.PickInt(4, 8, 16)
			cc.MSHR = r.PickInt(4, 8, 16)
			cc.Banks = r.PickInt(1, 2, 4)
			cc.BankLatency = r.PickInt(2, 10, 20)
			cc.DirLatency = r.PickInt(0, 2)
			cc.WriteBufCap = 1024
			cc.MaxFetch = 128
			cc.MaxEvict = 128
			cc.MaxTrans = 16
		}

		c.Caches = append(c.Caches, cc)
	}

	fixDomain := func() {
		// configuration domain: the write-through cache has no zero-latency
		// directory bypass (only the write-back cache has that branch).
		for i := range c.Caches {
			if c.Caches[i].Kind != "wb" && c.Caches[i].DirLatency == 0 {
				c.Caches[i].DirLatency = 1
			}
		}
	}
	defer fixDomain()

	if o.ForceWB {
		has := false
		for _, cc := range c.Caches {
			if cc.Kind == "wb" {
				has = true
			}
		}

		if !has {
			c.Caches[r.Intn(len(c.Caches))].Kind = "wb"
		}
	}

	maxBlock := uint64(64)
	if len(c.Caches) > 0 {
		maxBlock = 1 << c.Caches[len(c.Caches)-1].Log2Block
	}

	// lower memories
	lk := r.Weighted(5, 3, 2)
	if o.NoDram && lk == 2 {
		lk = r.Intn(2)
	}

	c.Lower = LowerCfg{Kind: []string{"ideal", "banked", "dram"}[lk], Count: r.PickInt(1, 1, 2, 4), FreqHz: freq(), PortBuf: buf()}
	c.Lower.Interleave = maxBlock * uint64(r.PickInt(1, 1, 2, 64))

	// one run in five: the lower memory's Top port takes many requests and lets
	// one response out at a time, so that several expired transactions wait
	// inside the controller for the port
	if r.Chance(1, 5) {
		c.Lower.PortBuf, c.Lower.TopOutBuf = r.PickInt(4, 16), 1
	}

	switch c.Lower.Kind {
	case "ideal":
		c.Lower.Latency = r.PickInt(1, 2, 5, 20, 100)
		c.Lower.Width = r.PickInt(1, 1, 2, 4)
	case "banked":
		c.Lower.NumBanks = r.PickInt(1, 2, 4)
		c.Lower.PipeWidth = r.PickInt(1, 1, 2)
		c.Lower.PipeDepth = r.PickInt(1, 1, 2, 3)
		c.Lower.StageLat = r.PickInt(1, 2, 10)
		c.Lower.PostBuf = r.PickInt(1, 1, 2, 4)
		c.Lower.Log2IL = uint64(r.PickInt(6, 6, 7, 8))

		// A bank serves a whole request and is selected by its start address, so
		// a line larger than the bank interleaving lets a fill and a partial
		// write of one line use different banks; keep that class rare.
		if maxBlock > 64 && c.Lower.Log2IL == 6 && r.Chance(3, 4) {
			c.Lower.Log2IL = 7
		}
	case "dram":
		c.Lower.Preset = []string{"DDR4", "DDR5", "HBM2", "HBM3", "GDDR6", "default"}[r.Intn(6)]
		c.Lower.OpenPage = r.Bool()
		c.Lower.TransQ = r.PickInt(0, 0, 8, 16) // smaller queues are rejected by the builder for multi-burst requests
		c.Lower.CmdQ = r.PickInt(0, 0, 1, 2)
		c.Lower.FreqHz = 0
	}

	if o.Stub || (!o.NoStub && r.Chance(1, 8)) {
		// adversarial lower memory: flat-memory semantics, seeded delays and
		// (legal) response reordering
		c.Lower.Kind = "stub"
		c.Lower.FreqHz = freq()
		c.Lower.Width = r.PickInt(1, 2, 4)
		c.Lower.StubMinDelay = r.PickInt(0, 1, 3)
		c.Lower.StubMaxDelay = c.Lower.StubMinDelay + r.PickInt(0, 2, 10, 60)
		c.Lower.StubReorder = r.Chance(2, 3)
		c.Lower.StubSeed = r.Uint64()
	}

	if !o.NoRob && r.Chance(1, 5) && (len(c.Caches) > 0 || c.Lower.Count == 1) {
		c.Rob = &RobCfg{BufferSize: r.PickInt(1, 2, 4, 16, 128), ReqPerCycle: r.PickInt(1, 2, 4), PortBuf: buf()}
	}

	// requests
	nreq := r.Weighted(0, 5, 3, 2)
	lines := r.PickInt(2, 4, 8, 16, 64)
	base := uint64(r.PickInt(0, 0, 4096, 65536-4096))
	maxOps := 60

	if tier == kit.Thorough {
		maxOps = r.PickInt(60, 300, 1500)
	}

	if o.MaxOps > 0 {
		maxOps = o.MaxOps
	}

	writePct := r.PickInt(10, 30, 50, 70)
	fullLinePct := r.PickInt(0, 10, 40)
	maskPct := r.PickInt(0, 20, 50)

	for i := 0; i < nreq; i++ {
		rc := ReqCfg{MaxOutstanding: r.PickInt(1, 2, 4, 8, 32), PortBuf: buf(), FreqHz: freq()}
		n := r.Range(1, maxOps)

		for k := 0; k < n; k++ {
			line := base + uint64(r.Intn(lines))*64
			op := Op{Write: r.Chance(writePct, 100)}

			if r.Chance(fullLinePct, 100) {
				op.Addr, op.Size = line, 64
			} else {
				op.Size = r.PickInt(4, 4, 8, 16, 32)
				op.Addr = line + uint64(r.Intn((64-op.Size)/4+1))*4
			}

			if op.Write && r.Chance(maskPct, 100) {
				op.Mask = 1 + r.Intn(1000)
			}

			rc.Ops = append(rc.Ops, op)
		}

		if r.Chance(1, 4) {
			t := uint64(r.Intn(20000))
			for s := 0; s < r.Range(1, 3); s++ {
				l := uint64(r.PickInt(1000, 5000, 20000, 100000))
				rc.Stalls = append(rc.Stalls, [2]uint64{t, t + l})
				t += l + uint64(r.Intn(10000))
			}
		}

		c.Reqs = append(c.Reqs, rc)
	}

	total := 0
	for _, rc := range c.Reqs {
		total += len(rc.Ops)
	}

	c.EventCap = 200000 + total*20000

	return c
}

// DirectoryMonitor checks the C19 well-formedness invariants of one directory.
func DirectoryMonitor(name string, ds *cache.DirectoryState, numSets, blockSize int) *kit.Violation {
	for si := range ds.Sets {
		set := &ds.Sets[si]
		ways := len(set.Blocks)
		seen := make([]bool, ways)

		if len(set.LRUOrder) != ways {
			return kit.Violate("directory-monitor", "C19:recency-not-permutation", "%s set %d: recency order %v has %d entries for %d ways", name, si, set.LRUOrder, len(set.LRUOrder), ways)
		}

		for _, wID := range set.LRUOrder {
			if wID < 0 || wID >= ways || seen[wID] {
				return kit.Violate("directory-monitor", "C19:recency-not-permutation", "%s set %d: recency order %v is not a permutation of its %d ways", name, si, set.LRUOrder, ways)
			}

			seen[wID] = true
		}

		for wi := range set.Blocks {
			b := &set.Blocks[wi]

			if b.ReadCount < 0 {
				return kit.Violate("directory-monitor", "C19:negative-reader-count", "%s set %d way %d: reader count %d", name, si, wi, b.ReadCount)
			}

			if !b.IsValid {
				continue
			}

			if want := cache.DirectorySetID(b.Tag, blockSize, numSets); want != si {
				return kit.Violate("directory-monitor", "C19:block-in-wrong-set", "%s: valid block tag %#x sits in set %d, its line maps to set %d", name, b.Tag, si, want)
			}

			for wj := wi + 1; wj < ways; wj++ {
				o := &set.Blocks[wj]
				if o.IsValid && o.Tag == b.Tag && o.PID == b.PID {
					return kit.Violate("directory-monitor", "C19:duplicate-line", "%s set %d: ways %d and %d both hold line %#x of process %d", name, si, wi, wj, b.Tag, b.PID)
				}
			}
		}
	}

	return nil
}

// InstallDirectoryMonitor runs DirectoryMonitor after every event handled by a cache.
func InstallDirectoryMonitor(w *World, sigPrefix string) {
	prev := w.AfterEvent
	w.AfterEvent = func(w *World, handler string) {
		if prev != nil {
			prev(w, handler)
		}

		if w.V != nil {
			return
		}

		a := w.Asm

		for li, c := range a.WB {
			if handler == fmt.Sprintf("L%d", li+1) {
				spec := c.Spec()
				if v := DirectoryMonitor(handler, &c.State.DirectoryState, spec.NumSets, 1<<spec.Log2BlockSize); v != nil {
					w.V = v
				}
			}
		}

		for li, c := range a.WT {
			if handler == fmt.Sprintf("L%d", li+1) {
				spec := c.Spec()
				if v := DirectoryMonitor(handler, &c.State.DirectoryState, spec.NumSets, 1<<spec.Log2BlockSize); v != nil {
					w.V = v
				}
			}
		}
	}
}

// Describe summarises a configuration for samples and shapes.
func Describe(c *Config) string {
	s := fmt.Sprintf("%dreq", len(c.Reqs))
	if c.Rob != nil {
		s += fmt.Sprintf(">rob%d", c.Rob.BufferSize)
	}

	for _, cc := range c.Caches {
		s += fmt.Sprintf(">%s(%dx%dx%d,mshr%d)", cc.Kind, cc.Sets, cc.Ways, 1<<cc.Log2Block, cc.MSHR)
	}

	s += fmt.Sprintf(">%dx%s", c.Lower.Count, c.Lower.Kind)
	if c.Lower.Kind == "dram" {
		s += ":" + c.Lower.Preset
	}

	return s
}
