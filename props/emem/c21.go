package emem

import (
	"bytes"
	"fmt"

	"github.com/sarchlab/akita/v5/hooking"
	"github.com/sarchlab/akita/v5/mem/memcontrolprotocol"
	"github.com/sarchlab/akita/v5/mem/memprotocol"
	"github.com/sarchlab/akita/v5/messaging"

	"verif/sim/kit"
)

type robObs struct {
	accepted []messaging.Msg // requests in the order the ROB retrieved them from Top
	answered []messaging.Msg // responses in the order the ROB sent them on Top
	resets   int
	truncate bool
}

type robCtrlHook struct{ o *robObs }

// A reset drops every request the reorder buffer accepted and has not answered:
// the order oracle continues with the requests accepted afterwards.
func (h robCtrlHook) Func(ctx hooking.HookCtx) {
	if ctx.Pos != messaging.HookPosPortMsgSend {
		return
	}

	if r, ok := ctx.Item.(memcontrolprotocol.Rsp); ok && r.Command == memcontrolprotocol.CmdReset && r.Success {
		// the ROB sends the ack first and then drains its ports (more retrieve
		// hooks fire); drop the unanswered requests at the end of this tick
		h.o.truncate = true
		h.o.resets++
	}
}

type robTopHook struct{ o *robObs }

func (h robTopHook) Func(ctx hooking.HookCtx) {
	m, ok := ctx.Item.(messaging.Msg)
	if !ok {
		return
	}

	switch ctx.Pos {
	case messaging.HookPosPortMsgRetrieveIncoming:
		h.o.accepted = append(h.o.accepted, m)
	case messaging.HookPosPortMsgSend:
		h.o.answered = append(h.o.answered, m)
	}
}

// C21Case is a ROB run with an optional control script (pause/enable/reset in the middle of traffic).
type C21Case struct {
	Cfg   Config     `json:"cfg"`
	Steps []CtrlStep `json:"steps,omitempty"`
}

func genC21(r *kit.Rand, tier kit.Tier) C21Case {
	cfg := genC21Cfg(r, tier)
	c := C21Case{Cfg: cfg}

	if r.Chance(1, 3) {
		t := uint64(0)
		for i := 0; i < r.Range(1, 3); i++ {
			t += uint64(r.PickInt(1000, 5000, 20000, 60000))
			cmd := r.PickInt(int(memcontrolprotocol.CmdPause), int(memcontrolprotocol.CmdReset), int(memcontrolprotocol.CmdDrain))
			c.Steps = append(c.Steps, CtrlStep{Target: "ROB", Cmd: cmd, At: t, Wait: r.Bool()})
			t += uint64(r.PickInt(0, 2000, 30000))
			c.Steps = append(c.Steps, CtrlStep{Target: "ROB", Cmd: int(memcontrolprotocol.CmdEnable), At: t, Wait: true})
		}
	}

	return c
}

func genC21Cfg(r *kit.Rand, tier kit.Tier) Config {
	c := GenConfig(r, tier, GenOpts{OnlyCaches: 0, Stub: true, NoRob: true})
	c.Lower.Count = 1
	c.Lower.StubUnique = true
	c.Lower.StubReorder = r.Chance(4, 5)
	c.Lower.StubMaxDelay = c.Lower.StubMinDelay + r.PickInt(0, 5, 30, 100)
	c.Rob = &RobCfg{BufferSize: r.PickInt(1, 2, 3, 4, 8, 16), ReqPerCycle: r.PickInt(1, 2, 4), PortBuf: r.PickInt(1, 1, 2, 4, 8)}

	// unique address per request so that a shadow request is attributable
	next := uint64(0)

	for i := range c.Reqs {
		for k := range c.Reqs[i].Ops {
			c.Reqs[i].Ops[k].Addr = next
			c.Reqs[i].Ops[k].Size = r.PickInt(4, 8, 64)
			c.Reqs[i].Ops[k].Mask = 0
			next += 64
		}
	}

	return c
}

func execC21(cc C21Case, _ *kit.Env) kit.Outcome {
	var out kit.Outcome

	c := cc.Cfg

	w := NewWorld()
	obs := &robObs{}
	w.NoDataCheck = true
	w.AfterEvent = func(_ *World, handler string) {
		if handler == "ROB" && obs.truncate {
			obs.accepted = obs.accepted[:len(obs.answered)]
			obs.truncate = false
		}
	}
	w.OnBuilt = func(a *Asm) {
		a.Rob.GetPortByName("Top").AcceptHook(robTopHook{obs})
		a.Rob.GetPortByName("Control").AcceptHook(robCtrlHook{obs})

		if len(cc.Steps) > 0 {
			w.Ctrl = NewCtrlDriver(a, w, cc.Steps)
			w.Ctrl.OnAck = func(_ *CtrlDriver, ack CtrlAck, step CtrlStep) {
				if step.Cmd == int(memcontrolprotocol.CmdReset) && ack.Rsp.Success {
					// requests inside the ROB at the reset are dropped, as documented
					for _, r := range a.Reqs {
						for id := range r.out {
							w.ReleaseRequest(id, false)
						}
					}
				}
			}
		}
	}

	a := Run(&c, w)
	fillOutcome(&out, &c, w, a)

	// C16-level verdicts that concern the requester's flat memory do not apply:
	// the stub returns unique payloads. Keep only completion.
	if w.V != nil && w.V.Sig == "C16:request-unanswered" {
		out.Violation = kit.Violate("completion", "C21:request-unanswered", "%s", w.V.Detail)
		return out
	}

	st := a.Stubs[0]
	reorderSeen := false

	for i, rsp := range obs.answered {
		if i >= len(obs.accepted) {
			out.Violation = kit.Violate("rob-order", "C21:extra-response", "the reorder buffer sent response #%d but accepted only %d requests", i, len(obs.accepted))
			return out
		}

		req := obs.accepted[i]
		rm, qm := rsp.Meta(), req.Meta()

		if rm.RspTo != qm.ID {
			out.Violation = kit.Violate("rob-order", "C21:out-of-order", "response #%d answers request ID %d, but the #%d accepted request is ID %d (accept order must be kept)", i, rm.RspTo, i, qm.ID)
			return out
		}

		if rm.Dst != qm.Src {
			out.Violation = kit.Violate("rob-order", "C21:wrong-requester", "response #%d is addressed to %s, its request came from %s", i, rm.Dst, qm.Src)
			return out
		}

		switch q := req.(type) {
		case memprotocol.ReadReq:
			d, ok := rsp.(memprotocol.DataReadyRsp)
			if !ok {
				out.Violation = kit.Violate("rob-order", "C21:wrong-kind", "read #%d answered with %T", i, rsp)
				return out
			}

			if want := st.ReadData[q.Address]; !bytes.Equal(d.Data, want) {
				out.Violation = kit.Violate("rob-order", "C21:wrong-payload", "response #%d for read of %#x carries %x, the lower unit answered that request with %x", i, q.Address, d.Data, want)
				return out
			}
		case memprotocol.WriteReq:
			if _, ok := rsp.(memprotocol.WriteDoneRsp); !ok {
				out.Violation = kit.Violate("rob-order", "C21:wrong-kind", "write #%d answered with %T", i, rsp)
				return out
			}
		}
	}

	if !w.CapHit && len(obs.answered) != len(obs.accepted) && obs.resets == 0 {
		out.Violation = kit.Violate("rob-order", "C21:missing-response", "the reorder buffer accepted %d requests and answered %d", len(obs.accepted), len(obs.answered))
		return out
	}

	if st.Reordered > 0 {
		reorderSeen = true
	}

	out.Probe("lower-completed-out-of-order", btoi(reorderSeen))
	out.Fault("control-verb(pause|drain|reset|enable)-mid-traffic", len(cc.Steps))
	out.Probe("reset-mid-traffic", obs.resets)
	out.NonTrivial = len(obs.accepted) >= 3 && reorderSeen
	out.Sample = map[string]any{"assembly": Describe(&c), "rob_buffer": c.Rob.BufferSize, "accepted": len(obs.accepted), "lower_reordered": st.Reordered}
	out.Shape = fmt.Sprintf("%s|%d|%d|%d", Describe(&c), len(obs.accepted), w.Events, out.SimTimePs)

	return out
}

func init() {
	kit.Register(kit.Spec[C21Case]{
		ID: "C21", Level: "exploration",
		Rule: "1-3 scripted requesters -> real reorder buffer (buffer 1-16, 1-4 requests per cycle, port buffers 1-8) -> adversarial lower memory that answers after seeded delays (0-100 cycles) in a seeded order with a unique payload per read; every request has its own address; 1 run in 3 adds pause / drain / reset + enable verbs in the middle of the traffic (a reset drops the accepted-but-unanswered requests from the order oracle); " +
			"oracle from hooks on the ROB's Top port: responses leave in exactly the order requests were retrieved, each with RspTo = original ID, Dst = original requester, matching kind and the lower unit's payload for that request; distinct = hash of (assembly, accepted, events, end time); non-trivial = >= 3 requests and the lower unit completed at least one out of order",
		Assumptions: []string{"the shadow request is attributed to its original by its (unique) address"},
		Real:        []string{"mem/rob", "noc/directconnection", "messaging.Port", "timing.SerialEngine"},
		Stubs:       []string{"requesters", "adversarial lower memory"},
		FaultKinds:  []string{"lower-response-delayed", "lower-response-reordered", "requester-stall-window", "back-pressure(requester-send-blocked)", "control-verb(pause|drain|reset|enable)-mid-traffic"},
		Quick:       kit.Budget{Runs: 15000, WallS: 100},
		Thorough:    kit.Budget{Runs: 1000000, WallS: 900},
		Gen:         genC21, Exec: execC21,
		Shrink: func(c C21Case) []C21Case {
			var out []C21Case
			for _, q := range ShrinkConfig(c.Cfg) {
				if q.Rob == nil || q.Lower.Kind != "stub" {
					continue
				}

				out = append(out, C21Case{Cfg: q, Steps: c.Steps})
			}

			if len(c.Steps) > 0 {
				out = append(out, C21Case{Cfg: c.Cfg})
			}

			return out
		},
	})
}
