package emem

import (
	"bytes"
	"fmt"

	"github.com/sarchlab/akita/v5/hooking"
	"github.com/sarchlab/akita/v5/mem"
	"github.com/sarchlab/akita/v5/mem/memprotocol"
	"github.com/sarchlab/akita/v5/messaging"
	"github.com/sarchlab/akita/v5/modeling"
	"github.com/sarchlab/akita/v5/timing"

	"verif/sim/kit"
)

// World is the harness-side state of one run: the flat reference memory, the
// in-flight byte table that keeps conflicting requests apart, and the verdict.
type World struct {
	Ref           map[uint64]byte
	Written       map[uint64]bool
	inflight      map[uint64]int
	Asm           *Asm
	V             *kit.Violation
	Events        uint64
	CapHit        bool
	Probes        map[string]int
	Resp          []RespRec // response log (fingerprint for C33 / C03)
	PID           uint32
	Seq           uint64          // global observation sequence (control monitors)
	Acked         map[uint64]byte // flat memory of acknowledged writes only
	WriteInflight map[uint64]int
	Ctrl          *CtrlDriver
	MaybeLost     map[uint64]bool // requests released by a reset of the agent holding them
	OnResponse    func(rspTo uint64)
	// AfterEvent is an optional monitor run after every handled event.
	AfterEvent func(w *World, handler string)
	// NoDataCheck disables the flat-memory comparison of read data (runs whose
	// lower memory deliberately returns unique payloads).
	NoDataCheck bool
	// MakeReq, when set, builds requester i itself and returns its port; tops are
	// the ports it may address (interleaved by il when more than one).
	MakeReq func(i int, a *Asm, tops []messaging.Port, il uint64) messaging.Port
	// OnBuilt is called once the assembly exists and before the run starts.
	OnBuilt func(a *Asm)
	// AllowOverlap lets the (single) requester keep overlapping requests in flight.
	AllowOverlap bool
	// NoEngineHook leaves the engine without the harness's event-counting hook
	// (no event cap, no AfterEvent): the unobserved baseline of C33.
	NoEngineHook bool
}

// RespRec is one response as seen by a requester.
type RespRec struct {
	Req   int
	Ord   int
	Time  uint64
	Write bool
	Data  []byte
}

// NewWorld returns an empty world.
func NewWorld() *World {
	return &World{
		Ref: map[uint64]byte{}, Written: map[uint64]bool{}, inflight: map[uint64]int{}, Probes: map[string]int{},
		Acked: map[uint64]byte{}, WriteInflight: map[uint64]int{},
	}
}

func (w *World) fail(oracle, sig, f string, a ...any) {
	if w.V == nil {
		w.V = kit.Violate(oracle, sig, f, a...)
	}
}

type outstanding struct {
	ord      int
	op       Op
	expected []byte
	issuedAt uint64
}

// Requester is the harness component that plays a scripted request stream.
type Requester struct {
	idx    int
	cfg    *ReqCfg
	name   string
	tc     *modeling.TickingComponent
	port   messaging.Port
	w      *World
	a      *Asm
	mapper mem.AddressToPortMapper
	next   int
	out    map[uint64]*outstanding
	done   int
}

func newRequester(i int, cfg *ReqCfg, a *Asm, w *World, mapper mem.AddressToPortMapper) *Requester {
	r := &Requester{idx: i, cfg: cfg, name: fmt.Sprintf("Req%d", i), w: w, a: a, mapper: mapper, out: map[uint64]*outstanding{}}
	r.tc = modeling.NewTickingComponent(r.name, a.Eng, timing.Freq(cfg.FreqHz), r)
	r.tc.DeclarePort("Mem", memprotocol.Requester)
	r.port = a.port(r.tc, "Mem", cfg.PortBuf)

	return r
}

func (r *Requester) stalled(now uint64) bool {
	for _, s := range r.cfg.Stalls {
		if now >= s[0] && now < s[1] {
			return true
		}
	}

	return false
}

func writeData(req, ord int, op Op) ([]byte, []bool) {
	data := make([]byte, op.Size)
	for i := range data {
		data[i] = byte(1 + (req*131+ord*17+i*7)%251)
	}

	if op.Mask == 0 {
		return data, nil
	}

	mask := make([]bool, op.Size)
	x := uint32(op.Mask) * 2654435761

	for i := range mask {
		x ^= x << 13
		x ^= x >> 17
		x ^= x << 5
		mask[i] = x&3 != 0
	}

	return data, mask
}

func (r *Requester) conflicts(op Op) bool {
	if r.w.AllowOverlap {
		// a single requester on one connection: requests arrive in issue order, so
		// the model fixed at issue is exact even for overlapping requests in flight
		return false
	}

	for i := 0; i < op.Size; i++ {
		if r.w.inflight[op.Addr+uint64(i)] > 0 {
			return true
		}
	}

	return false
}

// Tick implements modeling.Ticker.
func (r *Requester) Tick() bool {
	w := r.w
	now := uint64(r.a.Eng.CurrentTime())
	progress := false

	if !r.stalled(now) {
		for {
			m := r.port.RetrieveIncoming()
			if m == nil {
				break
			}

			progress = true
			r.handleRsp(m, now)
		}
	} else if r.port.NumIncoming() > 0 {
		w.Probes["requester-stalled-with-unread-response"]++
	}

	for r.next < len(r.cfg.Ops) && len(r.out) < r.cfg.MaxOutstanding {
		op := r.cfg.Ops[r.next]

		if r.conflicts(op) {
			w.Probes["issue-held-for-conflicting-inflight-request"]++
			break
		}

		if !r.port.CanSend() {
			w.Probes["requester-send-blocked"]++
			break
		}

		id := timing.GetIDGenerator().Generate()
		meta := messaging.MsgMeta{ID: id, Src: r.port.AsRemote(), Dst: r.mapper.Find(op.Addr)}
		o := &outstanding{ord: r.next, op: op, issuedAt: now}

		if op.Write {
			data, mask := writeData(r.idx, r.next, op)
			meta.TrafficBytes = len(data) + 12
			meta.TrafficClass = "memprotocol.WriteReq"
			r.port.Send(memprotocol.WriteReq{MsgMeta: meta, Address: op.Addr, Data: data, DirtyMask: mask, PID: vmPID(w.PID + op.PID)})

			for i := range data {
				if mask == nil || mask[i] {
					w.Ref[op.Addr+uint64(i)] = data[i]
					w.Written[op.Addr+uint64(i)] = true
					w.WriteInflight[op.Addr+uint64(i)]++
				}
			}
		} else {
			meta.TrafficBytes = 12
			meta.TrafficClass = "memprotocol.ReadReq"
			exp := make([]byte, op.Size)

			for i := range exp {
				exp[i] = w.Ref[op.Addr+uint64(i)]
			}

			o.expected = exp
			r.port.Send(memprotocol.ReadReq{MsgMeta: meta, Address: op.Addr, AccessByteSize: uint64(op.Size), PID: vmPID(w.PID + op.PID)})
		}

		for i := 0; i < op.Size; i++ {
			w.inflight[op.Addr+uint64(i)]++
		}

		r.out[id] = o
		r.next++
		progress = true
	}

	return progress
}

func (r *Requester) handleRsp(m messaging.Msg, now uint64) {
	w := r.w
	meta := m.Meta()

	if meta.Dst != r.port.AsRemote() {
		w.fail("response-monitor", "C16:misaddressed-response", "%s received a response addressed to %s", r.name, meta.Dst)
	}

	if w.OnResponse != nil {
		w.OnResponse(meta.RspTo)
	}

	o, ok := r.out[meta.RspTo]
	if !ok && w.MaybeLost[meta.RspTo] {
		return // sent before its agent was reset; the requester had been released from it
	}

	if !ok {
		w.fail("response-monitor", "C16:unsolicited-or-duplicate-response", "%s received %T with RspTo=%d at t=%d, which matches no outstanding request (duplicate or unsolicited)", r.name, m, meta.RspTo, now)
		return
	}

	switch rsp := m.(type) {
	case memprotocol.DataReadyRsp:
		if o.op.Write {
			w.fail("response-monitor", "C16:wrong-response-kind", "%s write #%d answered with DataReadyRsp", r.name, o.ord)
		} else if !w.NoDataCheck && !bytes.Equal(rsp.Data, o.expected) {
			w.fail("flat-memory", "C16:read-data", "%s read #%d of [%#x,+%d) issued t=%d answered t=%d returned %x, flat memory holds %x",
				r.name, o.ord, o.op.Addr, o.op.Size, o.issuedAt, now, rsp.Data, o.expected)
		}

		w.Resp = append(w.Resp, RespRec{Req: r.idx, Ord: o.ord, Time: now, Data: append([]byte(nil), rsp.Data...)})
	case memprotocol.WriteDoneRsp:
		if !o.op.Write {
			w.fail("response-monitor", "C16:wrong-response-kind", "%s read #%d answered with WriteDoneRsp", r.name, o.ord)
		}

		w.Resp = append(w.Resp, RespRec{Req: r.idx, Ord: o.ord, Time: now, Write: true})

		if o.op.Write {
			data, mask := writeData(r.idx, o.ord, o.op)
			for i := range data {
				if mask == nil || mask[i] {
					w.Acked[o.op.Addr+uint64(i)] = data[i]
					w.WriteInflight[o.op.Addr+uint64(i)]--
				}
			}
		}
	default:
		w.fail("response-monitor", "C16:wrong-response-kind", "%s received unexpected message %T", r.name, m)
	}

	delete(r.out, meta.RspTo)
	r.done++

	for i := 0; i < o.op.Size; i++ {
		w.inflight[o.op.Addr+uint64(i)]--
	}

	if w.Ctrl != nil {
		w.Ctrl.Poke()
	}

	// a completed request may unblock a conflicting one at any requester
	for _, other := range r.a.Reqs {
		if other != r {
			other.tc.TickLater()
		}
	}
}

// Finished reports whether the whole script was issued and answered.
func (r *Requester) Finished() bool { return r.next == len(r.cfg.Ops) && len(r.out) == 0 }

type capExceeded struct{}

type engineHook struct{ w *World }

func (h engineHook) Func(ctx hooking.HookCtx) {
	w := h.w

	switch ctx.Pos {
	case timing.HookPosBeforeEvent:
		w.Events++
		if int(w.Events) > w.Asm.Cfg.EventCap {
			w.CapHit = true
			panic(capExceeded{})
		}
	case timing.HookPosAfterEvent:
		if w.AfterEvent != nil {
			w.AfterEvent(w, ctx.Item.(timing.Event).HandlerID())
		}
	}
}

type pokeEvt struct {
	t   timing.VTimeInPicoSec
	req int
}

func (e pokeEvt) Time() timing.VTimeInPicoSec { return e.t }
func (e pokeEvt) HandlerID() string           { return "ReqPoker" }
func (e pokeEvt) IsSecondary() bool           { return false }

type reqPoker struct{ a *Asm }

func (p reqPoker) Handle(e timing.Event) error {
	p.a.Reqs[e.(pokeEvt).req].tc.TickLater()
	return nil
}

// Run builds the assembly, runs it to quiescence and applies the C16
// completion oracle. Monitors may be installed through w.AfterEvent first.
func Run(cfg *Config, w *World) *Asm {
	timing.ResetIDGenerator()
	timing.UseSequentialIDGenerator()

	a := Build(cfg, w)
	w.Asm = a
	a.Eng.RegisterHandler("ReqPoker", reqPoker{a})
	if !w.NoEngineHook {
		a.Eng.AcceptHook(engineHook{w})
	}

	if w.OnBuilt != nil {
		w.OnBuilt(a)
	}

	if ExtraAttach != nil {
		ExtraAttach(a)
	}

	for i, r := range a.Reqs {
		r.tc.TickLater()

		for _, s := range cfg.Reqs[i].Stalls {
			a.Eng.Schedule(pokeEvt{t: timing.VTimeInPicoSec(s[1]), req: i})
		}
	}

	func() {
		defer func() {
			if r := recover(); r != nil {
				if _, ok := r.(capExceeded); ok {
					return
				}

				panic(r)
			}
		}()

		_ = a.Eng.Run()
	}()

	if !w.CapHit {
		for _, r := range a.Reqs {
			if !r.Finished() {
				w.fail("completion", "C16:request-unanswered",
					"run ended at t=%d with %s having issued %d of %d requests and %d still unanswered (first: %s)",
					a.Eng.CurrentTime(), r.name, r.next, len(r.cfg.Ops), len(r.out), r.firstOutstanding())

				break
			}
		}
	}

	return a
}

func (r *Requester) firstOutstanding() string {
	best := -1

	var bo *outstanding

	for _, o := range r.out {
		if best < 0 || o.ord < best {
			best, bo = o.ord, o
		}
	}

	if bo == nil {
		return "none"
	}

	return fmt.Sprintf("#%d %+v issued t=%d", bo.ord, bo.op, bo.issuedAt)
}
