// Package emem simulates random memory-hierarchy assemblies built from the real
// library components (write-back / write-through caches, reorder buffers, ideal,
// banked and DRAM controllers, direct connections) driven by harness requesters
// with seeded scripts, and checks them against a flat-memory reference model
// (C16) with in-situ monitors (C19 directory invariants, …).
package emem

import (
	"fmt"

	"github.com/sarchlab/akita/v5/mem"
	"github.com/sarchlab/akita/v5/mem/cache/writeback"
	"github.com/sarchlab/akita/v5/mem/cache/writethroughcache"
	"github.com/sarchlab/akita/v5/mem/dram"
	"github.com/sarchlab/akita/v5/mem/idealmemcontroller"
	"github.com/sarchlab/akita/v5/mem/rob"
	"github.com/sarchlab/akita/v5/mem/simplebankedmemory"
	"github.com/sarchlab/akita/v5/messaging"
	"github.com/sarchlab/akita/v5/modeling"
	"github.com/sarchlab/akita/v5/naming"
	"github.com/sarchlab/akita/v5/noc/directconnection"
	"github.com/sarchlab/akita/v5/timing"
)

// CacheCfg configures one cache level.
type CacheCfg struct {
	Kind           string `json:"kind"` // wb | write-around | write-evict | write-through
	Log2Block      uint64 `json:"log2_block"`
	Ways           int    `json:"ways"`
	Sets           int    `json:"sets"`
	Banks          int    `json:"banks"`
	MSHR           int    `json:"mshr"`
	BankLatency    int    `json:"bank_latency"`
	DirLatency     int    `json:"dir_latency"`
	ReqPerCycle    int    `json:"req_per_cycle"`
	WriteBufCap    int    `json:"write_buf_cap,omitempty"`
	MaxFetch       int    `json:"max_fetch,omitempty"`
	MaxEvict       int    `json:"max_evict,omitempty"`
	MaxTrans       int    `json:"max_trans,omitempty"`
	FreqHz         uint64 `json:"freq_hz"`
	PortBuf        int    `json:"port_buf"`
	InterleaveSize uint64 `json:"interleave,omitempty"`
}

// LowerCfg configures the bottom memories.
type LowerCfg struct {
	Kind       string `json:"kind"` // ideal | banked | dram
	Count      int    `json:"count"`
	Interleave uint64 `json:"interleave"`
	Latency    int    `json:"latency,omitempty"`
	Width      int    `json:"width,omitempty"`
	NumBanks   int    `json:"num_banks,omitempty"`
	PipeWidth  int    `json:"pipe_width,omitempty"`
	PipeDepth  int    `json:"pipe_depth,omitempty"`
	StageLat   int    `json:"stage_lat,omitempty"`
	PostBuf    int    `json:"post_buf,omitempty"`
	Log2IL     uint64 `json:"log2_bank_il,omitempty"`
	Preset     string `json:"preset,omitempty"`
	OpenPage   bool   `json:"open_page,omitempty"`
	TransQ     int    `json:"trans_q,omitempty"`
	CmdQ       int    `json:"cmd_q,omitempty"`
	RWQueue    int    `json:"rw_queue,omitempty"` // >0: separate read and write queues of this size (write-drain mode)
	WriteHigh  int    `json:"write_high,omitempty"`
	WriteLow   int    `json:"write_low,omitempty"`
	FreqHz     uint64 `json:"freq_hz"`
	PortBuf    int    `json:"port_buf"`
	TopOutBuf  int    `json:"top_out_buf,omitempty"` // >0: outgoing capacity of the Top port differs from the incoming one
	// stub (adversarial lower memory) knobs
	StubMinDelay int    `json:"stub_min_delay,omitempty"`
	StubMaxDelay int    `json:"stub_max_delay,omitempty"`
	StubReorder  bool   `json:"stub_reorder,omitempty"`
	StubUnique   bool   `json:"stub_unique,omitempty"`
	StubSeed     uint64 `json:"stub_seed,omitempty"`
	CapExtra     uint64 `json:"cap_extra,omitempty"` // added to the storage capacity of ideal / banked lowers
}

// RobCfg configures an optional reorder buffer in front of the hierarchy.
type RobCfg struct {
	BufferSize  int `json:"buffer_size"`
	ReqPerCycle int `json:"req_per_cycle"`
	PortBuf     int `json:"port_buf"`
}

// Op is one scripted request.
type Op struct {
	Write bool   `json:"w,omitempty"`
	Addr  uint64 `json:"a"`
	Size  int    `json:"n"`
	Mask  int    `json:"m,omitempty"` // 0 none; k>0: bit pattern seed for a dirty mask
	PID   uint32 `json:"pid,omitempty"`
}

// ReqCfg configures one requester.
type ReqCfg struct {
	MaxOutstanding int         `json:"max_out"`
	PortBuf        int         `json:"port_buf"`
	FreqHz         uint64      `json:"freq_hz"`
	Stalls         [][2]uint64 `json:"stalls,omitempty"`
	Ops            []Op        `json:"ops"`
}

// Config is the explicit script of a memory-hierarchy run.
type Config struct {
	Reqs       []ReqCfg   `json:"reqs"`
	Rob        *RobCfg    `json:"rob,omitempty"`
	Caches     []CacheCfg `json:"caches"` // top (L1) first
	Lower      LowerCfg   `json:"lower"`
	OneConn    bool       `json:"one_conn"`
	ConnFreqHz uint64     `json:"conn_freq_hz"`
	EventCap   int        `json:"event_cap"`
}

// registrar records what the builders register.
type registrar struct {
	eng   *timing.SerialEngine
	comps []naming.Named
	ports []naming.Named
	res   []naming.Named
	conns []naming.Named
}

func (r *registrar) GetEngine() timing.Engine          { return r.eng }
func (r *registrar) RegisterComponent(c naming.Named)  { r.comps = append(r.comps, c) }
func (r *registrar) RegisterConnection(c naming.Named) { r.conns = append(r.conns, c) }
func (r *registrar) RegisterResource(c naming.Named)   { r.res = append(r.res, c) }
func (r *registrar) RegisterPort(p naming.Named)       { r.ports = append(r.ports, p) }

// Asm is a built assembly.
type Asm struct {
	Cfg    *Config
	Eng    *timing.SerialEngine
	Reg    modeling.Registrar
	Reqs   []*Requester
	Rob    *rob.Comp
	WB     map[int]*writeback.Comp
	WT     map[int]*writethroughcache.Comp
	Ideal  []*idealmemcontroller.Comp
	Banked []*simplebankedmemory.Comp
	Dram   []*dram.Comp
	Stubs  []*StubMem
	Conns  []*directconnection.Comp
	Ports  map[string]messaging.Port
	Ctrl   map[string]messaging.Port // component name -> Control port
	Stores []*mem.Storage            // backing storages, by lower index
}

func (a *Asm) port(comp messaging.Component, name string, buf int) messaging.Port {
	p := modeling.MakePortBuilder().WithRegistrar(a.Reg).WithComponent(comp).
		WithSpec(modeling.PortSpec{BufSize: buf}).Build(name)
	comp.AssignPort(name, p)
	a.Ports[p.Name()] = p

	return p
}

func dramPreset(name string) dram.Spec {
	switch name {
	case "DDR5":
		return dram.DDR5Spec
	case "HBM2":
		return dram.HBM2Spec
	case "HBM3":
		return dram.HBM3Spec
	case "GDDR6":
		return dram.GDDR6Spec
	case "default":
		return dram.DefaultSpec()
	default:
		return dram.DDR4Spec
	}
}

// LowerCapacity is the capacity given to ideal and banked lower memories.
const LowerCapacity = 1 << 20

// Build assembles the hierarchy described by cfg on a fresh serial engine.
func Build(cfg *Config, w *World) *Asm {
	eng := timing.NewSerialEngine()
	return BuildOn(&registrar{eng: eng}, cfg, w)
}

// BuildOn assembles the hierarchy on an existing registrar (for example a real
// simulation.Simulation, whose serial engine is then used). When w.MakeReq is set
// it supplies the requesters (checkpointable ones for the checkpoint properties).
func BuildOn(reg modeling.Registrar, cfg *Config, w *World) *Asm {
	a := &Asm{
		Cfg: cfg, Eng: reg.GetEngine().(*timing.SerialEngine), Ports: map[string]messaging.Port{},
		Ctrl: map[string]messaging.Port{}, WB: map[int]*writeback.Comp{}, WT: map[int]*writethroughcache.Comp{},
	}
	a.Reg = reg

	newConn := func(name string) *directconnection.Comp {
		spec := directconnection.DefaultSpec()
		spec.Freq = timing.Freq(cfg.ConnFreqHz)
		c := directconnection.MakeBuilder().WithRegistrar(a.Reg).WithSpec(spec).Build(name)
		a.Conns = append(a.Conns, c)

		return c
	}

	var shared *directconnection.Comp
	if cfg.OneConn {
		shared = newConn("Conn")
	}

	level := 0
	connFor := func() *directconnection.Comp {
		if shared != nil {
			return shared
		}

		level++

		return newConn(fmt.Sprintf("Conn%d", level))
	}

	// ---- lower memories
	var lowerTops []messaging.Port

	for i := 0; i < cfg.Lower.Count; i++ {
		name := fmt.Sprintf("Mem%d", i)

		var comp messaging.Component

		if cfg.Lower.Kind == "stub" {
			st := newStubMem(name, a, &cfg.Lower, i)
			a.Stubs = append(a.Stubs, st)
			lowerTops = append(lowerTops, st.port)

			continue
		}

		switch cfg.Lower.Kind {
		case "banked":
			s := simplebankedmemory.DefaultSpec()
			s.Freq = timing.Freq(cfg.Lower.FreqHz)
			s.NumBanks = cfg.Lower.NumBanks
			s.BankPipelineWidth = cfg.Lower.PipeWidth
			s.BankPipelineDepth = cfg.Lower.PipeDepth
			s.StageLatency = cfg.Lower.StageLat
			s.PostPipelineBufSize = cfg.Lower.PostBuf
			s.BankSelectorLog2InterleaveSize = cfg.Lower.Log2IL
			s.Capacity = LowerCapacity + cfg.Lower.CapExtra
			c := simplebankedmemory.MakeBuilder().WithRegistrar(a.Reg).WithSpec(s).Build(name)
			a.Banked = append(a.Banked, c)
			a.Stores = append(a.Stores, c.Resources().Storage)
			comp = c
		case "dram":
			s := dramPreset(cfg.Lower.Preset)
			if cfg.Lower.OpenPage {
				s.PagePolicy = dram.PagePolicyOpen
			} else {
				s.PagePolicy = dram.PagePolicyClose
			}

			if cfg.Lower.TransQ > 0 {
				s.TransactionQueueSize = cfg.Lower.TransQ
			}

			if cfg.Lower.CmdQ > 0 {
				s.CommandQueueCapacity = cfg.Lower.CmdQ
			}

			if cfg.Lower.RWQueue > 0 {
				s.ReadQueueSize, s.WriteQueueSize = cfg.Lower.RWQueue, cfg.Lower.RWQueue
				s.WriteHighWatermark, s.WriteLowWatermark = cfg.Lower.WriteHigh, cfg.Lower.WriteLow
			}

			c := dram.MakeBuilder().WithRegistrar(a.Reg).WithSpec(s).Build(name)
			a.Dram = append(a.Dram, c)
			a.Stores = append(a.Stores, c.Resources().Storage)
			comp = c
		default:
			s := idealmemcontroller.DefaultSpec()
			s.Freq = timing.Freq(cfg.Lower.FreqHz)
			s.Latency = cfg.Lower.Latency
			s.Width = cfg.Lower.Width
			s.Capacity = LowerCapacity + cfg.Lower.CapExtra
			c := idealmemcontroller.MakeBuilder().WithRegistrar(a.Reg).WithSpec(s).Build(name)
			a.Ideal = append(a.Ideal, c)
			a.Stores = append(a.Stores, c.Resources().Storage)
			comp = c
		}

		if cfg.Lower.TopOutBuf > 0 {
			// a Top port that takes many requests and lets few responses out at a
			// time (response back-pressure inside the controller)
			p := messaging.NewPort(comp, cfg.Lower.PortBuf, cfg.Lower.TopOutBuf, comp.Name()+".Top")
			a.Reg.RegisterPort(p)
			comp.AssignPort("Top", p)
			a.Ports[p.Name()] = p
			lowerTops = append(lowerTops, p)
		} else {
			lowerTops = append(lowerTops, a.port(comp, "Top", cfg.Lower.PortBuf))
		}

		a.Ctrl[name] = a.port(comp, "Control", 4)
	}

	mapperFor := func(tops []messaging.Port, il uint64) mem.AddressToPortMapper {
		if len(tops) == 1 {
			return &mem.SinglePortMapper{Port: tops[0].AsRemote()}
		}

		m := mem.NewInterleavedAddressPortMapper(il)
		for _, t := range tops {
			m.LowModules = append(m.LowModules, t.AsRemote())
		}

		return m
	}

	below := lowerTops
	belowIL := cfg.Lower.Interleave

	// ---- caches, bottom-up
	for li := len(cfg.Caches) - 1; li >= 0; li-- {
		cc := cfg.Caches[li]
		name := fmt.Sprintf("L%d", li+1)
		total := uint64(cc.Ways*cc.Sets) << cc.Log2Block
		conn := connFor()

		var top, bottom messaging.Port

		if cc.Kind == "wb" {
			s := writeback.DefaultSpec()
			s.Freq = timing.Freq(cc.FreqHz)
			s.NumReqPerCycle = cc.ReqPerCycle
			s.Log2BlockSize = cc.Log2Block
			s.BankLatency = cc.BankLatency
			s.WayAssociativity = cc.Ways
			s.NumBanks = cc.Banks
			s.NumMSHREntry = cc.MSHR
			s.TotalByteSize = total
			s.DirLatency = cc.DirLatency
			s.WriteBufferCapacity = cc.WriteBufCap
			s.MaxInflightFetch = cc.MaxFetch
			s.MaxInflightEviction = cc.MaxEvict
			c := writeback.MakeBuilder().WithRegistrar(a.Reg).WithSpec(s).
				WithResources(writeback.Resources{AddressToPortMapper: mapperFor(below, belowIL)}).Build(name)
			a.WB[li] = c
			top = a.port(c, "Top", cc.PortBuf)
			bottom = a.port(c, "Bottom", cc.PortBuf)
			a.Ctrl[name] = a.port(c, "Control", 4)
		} else {
			s := writethroughcache.DefaultSpec()
			s.Freq = timing.Freq(cc.FreqHz)
			s.NumReqPerCycle = cc.ReqPerCycle
			s.Log2BlockSize = cc.Log2Block
			s.BankLatency = cc.BankLatency
			s.WayAssociativity = cc.Ways
			s.NumBanks = cc.Banks
			s.NumMSHREntry = cc.MSHR
			s.TotalByteSize = total
			s.DirLatency = cc.DirLatency
			s.MaxNumConcurrentTrans = cc.MaxTrans
			s.WritePolicyType = cc.Kind
			c := writethroughcache.MakeBuilder().WithRegistrar(a.Reg).WithSpec(s).
				WithResources(writethroughcache.Resources{AddressMapper: mapperFor(below, belowIL)}).Build(name)
			a.WT[li] = c
			top = a.port(c, "Top", cc.PortBuf)
			bottom = a.port(c, "Bottom", cc.PortBuf)
			a.Ctrl[name] = a.port(c, "Control", 4)
		}

		conn.PlugIn(bottom)

		for _, b := range below {
			conn.PlugIn(b)
		}

		below = []messaging.Port{top}
		belowIL = 4096
	}

	// ---- optional ROB
	if cfg.Rob != nil {
		conn := connFor()
		s := rob.DefaultSpec()
		s.BufferSize = cfg.Rob.BufferSize
		s.NumReqPerCycle = cfg.Rob.ReqPerCycle

		if len(below) == 1 {
			s.BottomUnit = below[0].AsRemote()
		}

		c := rob.MakeBuilder().WithRegistrar(a.Reg).WithSpec(s).Build("ROB")
		a.Rob = c
		top := a.port(c, "Top", cfg.Rob.PortBuf)
		bottom := a.port(c, "Bottom", cfg.Rob.PortBuf)
		a.Ctrl["ROB"] = a.port(c, "Control", 4)
		conn.PlugIn(bottom)

		for _, b := range below {
			conn.PlugIn(b)
		}

		below = []messaging.Port{top}
	}

	// ---- requesters
	conn := connFor()
	for _, b := range below {
		conn.PlugIn(b)
	}

	topMapper := mapperFor(below, belowIL)

	for i := range cfg.Reqs {
		if w.MakeReq != nil {
			conn.PlugIn(w.MakeReq(i, a, below, belowIL))
			continue
		}

		r := newRequester(i, &cfg.Reqs[i], a, w, topMapper)
		a.Reqs = append(a.Reqs, r)
		conn.PlugIn(r.port)
	}

	return a
}
