package emem

import (
	"fmt"
	"sort"

	"github.com/sarchlab/akita/v5/hooking"
	"github.com/sarchlab/akita/v5/mem/memcontrolprotocol"
	"github.com/sarchlab/akita/v5/mem/memprotocol"
	"github.com/sarchlab/akita/v5/messaging"

	"verif/sim/kit"
)

// C18Case is one memory agent under a control script with live traffic.
type C18Case struct {
	Agent string     `json:"agent"` // ideal banked dram rob wb write-around write-evict write-through
	Cfg   Config     `json:"cfg"`
	Steps []CtrlStep `json:"steps"`
}

func supportOf(agent string) memcontrolprotocol.VerbSupport {
	switch agent {
	case "wb", "write-around", "write-evict", "write-through":
		return memcontrolprotocol.CacheLike()
	case "tlb", "mmucache":
		return memcontrolprotocol.TranslationCacheLike()
	default:
		return memcontrolprotocol.Universal()
	}
}

// FillLower draws the parameters of one lower-memory kind.
func FillLower(r *kit.Rand, l *LowerCfg, kind string, small bool) {
	buf := func() int {
		if small {
			return r.PickInt(1, 1, 2, 4)
		}

		return r.PickInt(2, 4, 8, 16)
	}

	*l = LowerCfg{Kind: kind, Count: 1, Interleave: 4096, FreqHz: 1_000_000_000, PortBuf: buf()}

	switch kind {
	case "ideal":
		l.Latency = r.PickInt(1, 2, 5, 20, 100)
		l.Width = r.PickInt(1, 1, 2, 4)
	case "banked":
		l.NumBanks = r.PickInt(1, 2, 4)
		l.PipeWidth = r.PickInt(1, 1, 2)
		l.PipeDepth = r.PickInt(1, 1, 2, 3)
		l.StageLat = r.PickInt(1, 2, 10)
		l.PostBuf = r.PickInt(1, 1, 2, 4)
		l.Log2IL = uint64(r.PickInt(6, 7, 8))
	case "dram":
		l.Preset = []string{"DDR4", "DDR5", "HBM2", "HBM3", "GDDR6", "default"}[r.Intn(6)]
		l.OpenPage = r.Bool()
		l.TransQ = r.PickInt(0, 0, 8, 16)
		l.CmdQ = r.PickInt(0, 0, 1, 2)
		l.FreqHz = 0
	case "stub":
		l.Width = r.PickInt(1, 2, 4)
		l.StubMinDelay = r.PickInt(0, 1, 3)
		l.StubMaxDelay = l.StubMinDelay + r.PickInt(0, 2, 10, 60)
		l.StubReorder = r.Chance(2, 3)
		l.StubSeed = r.Uint64()
	}
}

var c18Agents = []string{"ideal", "banked", "dram", "rob", "wb", "write-around", "write-evict", "write-through"}

func genC18(r *kit.Rand, tier kit.Tier) C18Case {
	var c C18Case

	c.Agent = c18Agents[r.Intn(len(c18Agents))]
	c.Cfg = GenConfig(r, tier, GenOpts{OnlyCaches: 1, NoRob: true, NoStub: true, MaxOps: 40})
	small := r.Chance(2, 3)
	target := "Mem0"

	switch c.Agent {
	case "ideal", "banked", "dram":
		c.Cfg.Caches = nil
		FillLower(r, &c.Cfg.Lower, c.Agent, small)
	case "rob":
		c.Cfg.Caches = nil
		c.Cfg.Rob = &RobCfg{BufferSize: r.PickInt(1, 2, 4, 16), ReqPerCycle: r.PickInt(1, 2, 4), PortBuf: r.PickInt(1, 2, 4)}
		FillLower(r, &c.Cfg.Lower, "stub", small)
		target = "ROB"
	default:
		c.Cfg.Caches[0].Kind = c.Agent
		if c.Agent != "wb" && c.Cfg.Caches[0].DirLatency == 0 {
			c.Cfg.Caches[0].DirLatency = 1
		}

		FillLower(r, &c.Cfg.Lower, "stub", small)
		target = "L1"
	}

	// control script
	n := r.Range(1, 8)
	t := uint64(0)

	for i := 0; i < n; i++ {
		cmd := r.Weighted(4, 4, 4, 2, 2, 2) // pause drain enable reset invalidate flush
		st := CtrlStep{Target: target, Cmd: cmd, Wait: r.Chance(1, 2)}

		if r.Chance(2, 3) {
			t += uint64(r.PickInt(0, 1000, 3000, 10000, 50000))
			st.At = t
		}

		if cmd == int(memcontrolprotocol.CmdInvalidate) || cmd == int(memcontrolprotocol.CmdFlush) {
			if r.Chance(1, 2) {
				for k := 0; k < r.Range(1, 4); k++ {
					st.Addresses = append(st.Addresses, uint64(r.Intn(64))*64)
				}
			}

			if r.Chance(1, 3) {
				st.PID = uint32(r.Intn(3))
			}
		}

		c.Steps = append(c.Steps, st)
	}

	c.Steps = append(c.Steps, CtrlStep{Target: target, Cmd: int(memcontrolprotocol.CmdEnable), Wait: true})

	return c
}

type c18Mon struct {
	w                                                        *World
	a                                                        *Asm
	agent                                                    string
	name                                                     string
	support                                                  memcontrolprotocol.VerbSupport
	reqs                                                     []memcontrolprotocol.Req // control requests in delivery order
	rsps                                                     int                      // control responses seen so far
	model                                                    bool                     // model state: true = paused
	paused                                                   bool                     // after a pause/drain ack, until enable/reset ack
	delivered                                                map[uint64]uint64        // data request ID -> seq delivered into Top
	accepted                                                 map[uint64]bool          // retrieved from Top
	answered                                                 map[uint64]bool          // response sent on Top
	received                                                 map[uint64]bool          // response received by a requester
	downOut                                                  map[uint64]bool          // downstream requests without processed response
	preReset                                                 map[uint64]bool          // requests that may legitimately stay unanswered
	pausedSends, drains, resets, refusals, queuedDuringPause, asyncWhilePaused int
}

type c18Hook struct {
	m    *c18Mon
	port string // top bottom control
}

func (h c18Hook) Func(ctx hooking.HookCtx) {
	m := h.m
	msg, ok := ctx.Item.(messaging.Msg)

	if !ok {
		return
	}

	m.w.Seq++
	seq := m.w.Seq

	switch h.port {
	case "top":
		switch ctx.Pos {
		case messaging.HookPosPortMsgRecvd:
			m.delivered[msg.Meta().ID] = seq

			if m.paused {
				m.queuedDuringPause++
			}
		case messaging.HookPosPortMsgRetrieveIncoming:
			m.accepted[msg.Meta().ID] = true
		case messaging.HookPosPortMsgSend:
			id := msg.Meta().RspTo

			switch msg.(type) {
			case memprotocol.DataReadyRsp, memprotocol.WriteDoneRsp:
				if m.paused {
					m.w.fail("control-monitor", "C18:data-response-while-paused",
						"%s (%s) sent a data response (RspTo=%d) after acknowledging pause/drain and before being enabled", m.name, m.agent, id)
				}

				if m.preReset[id] {
					m.w.fail("control-monitor", "C18:response-to-pre-reset-request",
						"%s (%s) answered request %d, which was delivered before its reset acknowledgment", m.name, m.agent, id)
				}

				m.answered[id] = true
			}
		}
	case "bottom":
		switch ctx.Pos {
		case messaging.HookPosPortMsgSend:
			m.downOut[msg.Meta().ID] = true
		case messaging.HookPosPortMsgRetrieveIncoming:
			delete(m.downOut, msg.Meta().RspTo)
		}
	case "control":
		switch ctx.Pos {
		case messaging.HookPosPortMsgRecvd:
			if r, ok := msg.(memcontrolprotocol.Req); ok {
				m.reqs = append(m.reqs, r)
			}
		case messaging.HookPosPortMsgRetrieveIncoming:
			// The agent starts carrying out a drain or a flush: both verbs ask it to let
			// in-flight transactions finish (drain: "let in-flight transactions finish";
			// flush: pre-flush quiesce), so answers to those transactions are legitimate
			// until the verb is acknowledged, even if a pause was acknowledged before.
			if r, ok := msg.(memcontrolprotocol.Req); ok &&
				(r.Command == memcontrolprotocol.CmdDrain || (r.Command == memcontrolprotocol.CmdFlush && m.support.Flush)) {
				if m.paused {
					m.asyncWhilePaused++
				}

				m.paused = false
			}
		case messaging.HookPosPortMsgSend:
			if r, ok := msg.(memcontrolprotocol.Rsp); ok {
				m.onAck(r)
			}
		}
	}
}

func (m *c18Mon) onAck(rsp memcontrolprotocol.Rsp) {
	w := m.w

	if m.rsps >= len(m.reqs) {
		w.fail("control-monitor", "C18:extra-control-response", "%s sent a control response (cmd %d, RspTo %d) with no request pending", m.name, rsp.Command, rsp.RspTo)
		return
	}

	req := m.reqs[m.rsps]
	m.rsps++

	if rsp.RspTo != req.ID || rsp.Command != req.Command {
		w.fail("control-monitor", "C18:control-response-order", "%s (%s): control response #%d carries command %d / RspTo %d, the #%d request was command %d / ID %d (responses must come in request order with their command and ID)",
			m.name, m.agent, m.rsps-1, rsp.Command, rsp.RspTo, m.rsps-1, req.Command, req.ID)

		return
	}

	if rsp.Dst != req.Src {
		w.fail("control-monitor", "C18:control-response-misaddressed", "%s: control response to %s, request came from %s", m.name, rsp.Dst, req.Src)
		return
	}

	cmd := req.Command

	if !m.support.Supports(cmd) {
		if rsp.Success || rsp.Error != memcontrolprotocol.ErrUnsupported {
			w.fail("control-monitor", "C18:unsupported-verb-not-refused", "%s (%s): verb %d is unsupported but was answered Success=%v Error=%q", m.name, m.agent, cmd, rsp.Success, rsp.Error)
		}

		m.refusals++

		return
	}

	if (cmd == memcontrolprotocol.CmdInvalidate || cmd == memcontrolprotocol.CmdFlush) && !m.model {
		if rsp.Success || rsp.Error != memcontrolprotocol.ErrMustBePausedOrDrained {
			w.fail("control-monitor", "C18:illegal-state-verb-not-refused", "%s (%s): verb %d while running was answered Success=%v Error=%q", m.name, m.agent, cmd, rsp.Success, rsp.Error)
		}

		m.refusals++

		return
	}

	if !rsp.Success {
		w.fail("control-monitor", "C18:supported-verb-failed", "%s (%s): supported verb %d in model state paused=%v answered Success=false Error=%q", m.name, m.agent, cmd, m.model, rsp.Error)
		return
	}

	switch cmd {
	case memcontrolprotocol.CmdPause:
		m.model, m.paused = true, true
	case memcontrolprotocol.CmdDrain:
		m.model, m.paused = true, true
		m.drains++

		var ids []uint64
		for id := range m.accepted {
			ids = append(ids, id)
		}

		sort.Slice(ids, func(i, j int) bool { return ids[i] < ids[j] })

		for _, id := range ids {
			if !m.answered[id] && !m.preReset[id] {
				w.fail("control-monitor", "C18:drain-ack-with-unanswered-request", "%s (%s) acknowledged drain while request %d, accepted earlier, has not been answered", m.name, m.agent, id)
				return
			}
		}

		if len(m.downOut) > 0 {
			w.fail("control-monitor", "C18:drain-ack-with-downstream-outstanding", "%s (%s) acknowledged drain with %d downstream request(s) still awaiting or not having processed their response", m.name, m.agent, len(m.downOut))
			return
		}
	case memcontrolprotocol.CmdFlush:
		m.paused = m.model
	case memcontrolprotocol.CmdEnable:
		m.model, m.paused = false, false
	case memcontrolprotocol.CmdReset:
		m.model, m.paused = false, false
		m.resets++

		for id := range m.delivered {
			if !m.received[id] && !m.preReset[id] {
				m.preReset[id] = true

				if !m.answered[id] {
					// never answered by the agent so far: a later answer is a violation;
					// a response already sent may still arrive and is accepted.
					w.ReleaseRequest(id, true)
				} else {
					w.ReleaseRequest(id, false)
					delete(m.preReset, id)
				}
			}
		}

		m.downOut = map[uint64]bool{}
	}
}

// ReleaseRequest removes a request from the requesters' must-be-answered set
// (it was inside an agent when that agent was reset).
func (w *World) ReleaseRequest(id uint64, forget bool) {
	for _, r := range w.Asm.Reqs {
		if o, ok := r.out[id]; ok {
			delete(r.out, id)

			for i := 0; i < o.op.Size; i++ {
				w.inflight[o.op.Addr+uint64(i)]--
			}

			if w.MaybeLost == nil {
				w.MaybeLost = map[uint64]bool{}
			}

			w.MaybeLost[id] = true

			for _, other := range w.Asm.Reqs {
				other.tc.TickLater() // the released bytes may unblock any requester
			}
		}
	}
}

func execC18(c C18Case, _ *kit.Env) kit.Outcome {
	var out kit.Outcome

	w := NewWorld()
	mon := &c18Mon{
		w: w, agent: c.Agent, support: supportOf(c.Agent),
		delivered: map[uint64]uint64{}, accepted: map[uint64]bool{}, answered: map[uint64]bool{}, received: map[uint64]bool{},
		downOut: map[uint64]bool{}, preReset: map[uint64]bool{},
	}

	hasReset, hasWBInvalidate := false, false

	for _, s := range c.Steps {
		if s.Cmd == int(memcontrolprotocol.CmdReset) {
			hasReset = true
		}

		if s.Cmd == int(memcontrolprotocol.CmdInvalidate) && c.Agent == "wb" {
			hasWBInvalidate = true
		}
	}

	// a reset (or an invalidate of dirty lines) legitimately loses data
	w.NoDataCheck = hasReset || hasWBInvalidate
	w.OnResponse = func(id uint64) { mon.received[id] = true }

	w.OnBuilt = func(a *Asm) {
		mon.a = a
		mon.name = c.Steps[0].Target
		d := NewCtrlDriver(a, w, c.Steps)
		w.Ctrl = d

		a.Ports[mon.name+".Top"].AcceptHook(c18Hook{mon, "top"})
		a.Ports[mon.name+".Control"].AcceptHook(c18Hook{mon, "control"})

		if p, ok := a.Ports[mon.name+".Bottom"]; ok {
			p.AcceptHook(c18Hook{mon, "bottom"})
		}
	}

	a := Run(&c.Cfg, w)
	fillOutcome(&out, &c.Cfg, w, a)

	if w.V == nil && !w.CapHit {
		if !w.Ctrl.Done() {
			w.fail("control-monitor", "C18:control-request-unanswered", "run ended at t=%d with the control script at step %d of %d and %d request(s) never acknowledged (%s)",
				a.Eng.CurrentTime(), w.Ctrl.next, len(c.Steps), len(w.Ctrl.waiting), c.Agent)
		} else if len(w.Ctrl.Unknown) > 0 {
			w.fail("control-monitor", "C18:unsolicited-control-response", "control driver received %d response(s) matching no request", len(w.Ctrl.Unknown))
		}
	}

	out.Violation = w.V
	if out.Violation != nil && len(out.Violation.Sig) > 3 && out.Violation.Sig[:3] == "C16" {
		out.Violation.Sig = "C18:via-" + out.Violation.Sig + "(" + c.Agent + ")"
	}

	out.Fault("control-verb", len(w.Ctrl.Acks))
	out.Fault("reset-with-traffic", mon.resets)
	out.Fault("drain-with-traffic", mon.drains)
	out.Probe("refused-verbs", mon.refusals)
	out.Probe("drain-or-flush-started-while-paused", mon.asyncWhilePaused)
	out.Probe("requests-delivered-while-paused", mon.queuedDuringPause)
	out.Probe("agent:"+c.Agent, 1)
	out.NonTrivial = len(w.Ctrl.Acks) >= 2 && len(mon.delivered) > 0
	out.Shape = fmt.Sprintf("%s|%s|%v", c.Agent, out.Shape, c.Steps)
	out.Sample = map[string]any{"agent": c.Agent, "assembly": Describe(&c.Cfg), "script": stepNames(c.Steps), "acks": len(w.Ctrl.Acks)}

	return out
}

func stepNames(steps []CtrlStep) string {
	names := []string{"pause", "drain", "enable", "reset", "invalidate", "flush"}
	s := ""

	for _, st := range steps {
		s += names[st.Cmd]
		if !st.Wait {
			s += "(nowait)"
		}

		s += " "
	}

	return s
}

func init() {
	kit.Register(kit.Spec[C18Case]{
		ID: "C18", Level: "exploration",
		Rule: "one real memory agent (ideal / banked / DRAM controller, reorder buffer, write-back cache, write-around / write-evict / write-through cache) between 1-3 scripted requesters and (for agents with a Bottom port) the adversarial lower memory; a control driver issues 1-8 seeded verbs (all six, with address / process filters, back-to-back or awaiting acks, at seeded instants inside live traffic) and a final enable; " +
			"oracle = protocol monitor on the agent's Control / Top / Bottom ports ordered by a global sequence: one response per request with its command and ID in request order, support matrix and illegal-state refusals, no data response between a pause/drain ack and the next enable/reset ack, drain ack => every accepted request answered and nothing outstanding downstream, reset ack => no later answer to a request delivered before it, everything not reset completes after the final enable; the flat-memory oracle stays on when the script has no reset (and no invalidate of a write-back cache); " +
			"distinct = hash of (agent, assembly, events, script); non-trivial = >= 2 acknowledgments and traffic reached the agent",
		Assumptions: []string{"virtual-memory agents and the data mover are covered by their own assemblies (C25 / C23 runs) — not by this generator yet", "quiescence is judged from outside: accepted = retrieved from Top, answered = response sent on Top, downstream outstanding = sent on Bottom without a retrieved response"},
		Real:        []string{"mem/idealmemcontroller", "mem/simplebankedmemory", "mem/dram", "mem/rob", "mem/cache/writeback", "mem/cache/writethroughcache", "mem/memcontrolprotocol", "noc/directconnection"},
		Stubs:       []string{"requesters", "control driver", "adversarial lower memory"},
		FaultKinds:  []string{"control-verb", "reset-with-traffic", "drain-with-traffic", "lower-response-delayed", "lower-response-reordered", "requester-stall-window"},
		Quick:       kit.Budget{Runs: 12000, WallS: 100},
		Thorough:    kit.Budget{Runs: 800000, WallS: 1500, CaseS: 300},
		Gen:         genC18, Exec: execC18,
		Shrink: func(c C18Case) []C18Case {
			var out []C18Case

			for _, l := range kit.ListShrinks(c.Steps[:len(c.Steps)-1]) {
				q := c
				q.Steps = append(append([]CtrlStep(nil), l...), c.Steps[len(c.Steps)-1])
				out = append(out, q)
			}

			for _, q := range ShrinkConfig(c.Cfg) {
				if len(q.Caches) != len(c.Cfg.Caches) || (q.Rob == nil) != (c.Cfg.Rob == nil) || q.Lower.Kind != c.Cfg.Lower.Kind {
					continue
				}

				out = append(out, C18Case{Agent: c.Agent, Cfg: q, Steps: c.Steps})
			}

			return out
		},
	})
}
