package emem

import (
	"fmt"

	"github.com/sarchlab/akita/v5/mem/memcontrolprotocol"

	"verif/props/ctrlmon"
	"verif/props/edm"
	"verif/props/evm"
	"verif/sim/kit"
)

// C18Case is one memory agent under a control script with live traffic.
type C18Case struct {
	Agent string     `json:"agent"` // ideal banked dram rob wb write-around write-evict write-through
	Cfg   Config     `json:"cfg"`
	Steps []CtrlStep `json:"steps"`
}

func supportOf(agent string) memcontrolprotocol.VerbSupport {
	switch agent {
	case "wb", "write-around", "write-evict", "write-through":
		return memcontrolprotocol.CacheLike()
	case "tlb", "mmucache":
		return memcontrolprotocol.TranslationCacheLike()
	default:
		return memcontrolprotocol.Universal()
	}
}

// FillLower draws the parameters of one lower-memory kind.
func FillLower(r *kit.Rand, l *LowerCfg, kind string, small bool) {
	buf := func() int {
		if small {
			return r.PickInt(1, 1, 2, 4)
		}

		return r.PickInt(2, 4, 8, 16)
	}

	*l = LowerCfg{Kind: kind, Count: 1, Interleave: 4096, FreqHz: 1_000_000_000, PortBuf: buf()}

	switch kind {
	case "ideal":
		l.Latency = r.PickInt(1, 2, 5, 20, 100)
		l.Width = r.PickInt(1, 1, 2, 4)
	case "banked":
		l.NumBanks = r.PickInt(1, 2, 4)
		l.PipeWidth = r.PickInt(1, 1, 2)
		l.PipeDepth = r.PickInt(1, 1, 2, 3)
		l.StageLat = r.PickInt(1, 2, 10)
		l.PostBuf = r.PickInt(1, 1, 2, 4)
		l.Log2IL = uint64(r.PickInt(6, 7, 8))
	case "dram":
		l.Preset = []string{"DDR4", "DDR5", "HBM2", "HBM3", "GDDR6", "default"}[r.Intn(6)]
		l.OpenPage = r.Bool()
		l.TransQ = r.PickInt(0, 0, 8, 16)
		l.CmdQ = r.PickInt(0, 0, 1, 2)
		l.FreqHz = 0
	case "stub":
		l.Width = r.PickInt(1, 2, 4)
		l.StubMinDelay = r.PickInt(0, 1, 3)
		l.StubMaxDelay = l.StubMinDelay + r.PickInt(0, 2, 10, 60)
		l.StubReorder = r.Chance(2, 3)
		l.StubSeed = r.Uint64()
	}
}

var c18Agents = []string{"ideal", "banked", "dram", "rob", "wb", "write-around", "write-evict", "write-through"}

func genC18(r *kit.Rand, tier kit.Tier) C18Case {
	var c C18Case

	c.Agent = c18Agents[r.Intn(len(c18Agents))]
	c.Cfg = GenConfig(r, tier, GenOpts{OnlyCaches: 1, NoRob: true, NoStub: true, MaxOps: 40})
	small := r.Chance(2, 3)
	target := "Mem0"

	switch c.Agent {
	case "ideal", "banked", "dram":
		c.Cfg.Caches = nil
		FillLower(r, &c.Cfg.Lower, c.Agent, small)
	case "rob":
		c.Cfg.Caches = nil
		c.Cfg.Rob = &RobCfg{BufferSize: r.PickInt(1, 2, 4, 16), ReqPerCycle: r.PickInt(1, 2, 4), PortBuf: r.PickInt(1, 2, 4)}
		FillLower(r, &c.Cfg.Lower, "stub", small)
		target = "ROB"
	default:
		c.Cfg.Caches[0].Kind = c.Agent
		if c.Agent != "wb" && c.Cfg.Caches[0].DirLatency == 0 {
			c.Cfg.Caches[0].DirLatency = 1
		}

		FillLower(r, &c.Cfg.Lower, "stub", small)
		target = "L1"
	}

	// control script
	n := r.Range(1, 8)
	t := uint64(0)

	for i := 0; i < n; i++ {
		cmd := r.Weighted(4, 4, 4, 2, 2, 2) // pause drain enable reset invalidate flush
		st := CtrlStep{Target: target, Cmd: cmd, Wait: r.Chance(1, 2)}

		if r.Chance(2, 3) {
			t += uint64(r.PickInt(0, 1000, 3000, 10000, 50000))
			st.At = t
		}

		if cmd == int(memcontrolprotocol.CmdInvalidate) || cmd == int(memcontrolprotocol.CmdFlush) {
			if r.Chance(1, 2) {
				for k := 0; k < r.Range(1, 4); k++ {
					st.Addresses = append(st.Addresses, uint64(r.Intn(64))*64)
				}
			}

			if r.Chance(1, 3) {
				st.PID = uint32(r.Intn(3))
			}
		}

		c.Steps = append(c.Steps, st)
	}

	c.Steps = append(c.Steps, CtrlStep{Target: target, Cmd: int(memcontrolprotocol.CmdEnable), Wait: true})

	// One run in ten: a write-back cache of a few lines under a storm of full-line
	// writes over more lines than it holds (every miss evicts a dirty victim whose
	// write-back travels to a slow lower memory while the write itself is already
	// answered), with resets at arbitrary moments of that traffic.
	if r.Chance(1, 10) {
		c.Agent = "wb"

		if len(c.Cfg.Caches) == 0 {
			c.Cfg = GenConfig(r, tier, GenOpts{OnlyCaches: 1, NoRob: true, NoStub: true, MaxOps: 40})
		}

		c.Cfg.Rob = nil
		FillLower(r, &c.Cfg.Lower, "stub", small)
		cc := &c.Cfg.Caches[0]
		cc.Kind, cc.Log2Block, cc.Sets, cc.Ways = "wb", 6, r.PickInt(1, 2), r.PickInt(1, 2)
		c.Cfg.Lower.StubMinDelay = r.PickInt(5, 20, 60)
		c.Cfg.Lower.StubMaxDelay = c.Cfg.Lower.StubMinDelay + r.PickInt(0, 20, 100)
		c.Cfg.Reqs = c.Cfg.Reqs[:1]
		lines := cc.Sets*cc.Ways + r.Range(1, 3)
		base := uint64(r.Intn(8)) * 4096

		var ops []Op

		for i := 0; i < r.Range(6, 30); i++ {
			a := base + uint64(r.Intn(lines))*64

			switch r.Weighted(6, 1, 1) {
			case 0:
				ops = append(ops, Op{Write: true, Addr: a, Size: 64})
			case 1:
				ops = append(ops, Op{Write: true, Addr: a + uint64(r.Intn(15))*4, Size: 4})
			default:
				ops = append(ops, Op{Addr: a + uint64(r.Intn(15))*4, Size: 4})
			}
		}

		c.Cfg.Reqs[0].Ops = ops
		c.Cfg.Reqs[0].Stalls = nil
		c.Steps = nil
		t := uint64(0)

		for i := 0; i < r.Range(1, 3); i++ {
			t += uint64(r.Range(2, 120)) * 1000
			c.Steps = append(c.Steps, CtrlStep{Target: "L1", Cmd: int(memcontrolprotocol.CmdReset), At: t, Wait: r.Chance(1, 2)})
		}

		c.Steps = append(c.Steps, CtrlStep{Target: "L1", Cmd: int(memcontrolprotocol.CmdEnable), Wait: true})
	}

	return c
}

// ReleaseRequest removes a request from the requesters' must-be-answered set
// (it was inside an agent when that agent was reset).
func (w *World) ReleaseRequest(id uint64, forget bool) {
	for _, r := range w.Asm.Reqs {
		if o, ok := r.out[id]; ok {
			delete(r.out, id)

			for i := 0; i < o.op.Size; i++ {
				w.inflight[o.op.Addr+uint64(i)]--
			}

			if w.MaybeLost == nil {
				w.MaybeLost = map[uint64]bool{}
			}

			w.MaybeLost[id] = true

			for _, other := range w.Asm.Reqs {
				other.tc.TickLater() // the released bytes may unblock any requester
			}
		}
	}
}

func execC18(c C18Case, _ *kit.Env) kit.Outcome {
	var out kit.Outcome

	w := NewWorld()
	mon := ctrlmon.New("", c.Agent, supportOf(c.Agent))
	mon.Fail = w.fail
	mon.Release = w.ReleaseRequest

	hasReset, hasWBInvalidate := false, false

	for _, s := range c.Steps {
		if s.Cmd == int(memcontrolprotocol.CmdReset) {
			hasReset = true
		}

		if s.Cmd == int(memcontrolprotocol.CmdInvalidate) && c.Agent == "wb" {
			hasWBInvalidate = true
		}
	}

	// a reset (or an invalidate of dirty lines) legitimately loses data
	w.NoDataCheck = hasReset || hasWBInvalidate
	w.OnResponse = func(id uint64) { mon.Received[id] = true }

	w.OnBuilt = func(a *Asm) {
		mon.Name = c.Steps[0].Target
		d := NewCtrlDriver(a, w, c.Steps)
		w.Ctrl = d

		a.Ports[mon.Name+".Top"].AcceptHook(mon.Hook("top"))
		a.Ports[mon.Name+".Control"].AcceptHook(mon.Hook("control"))

		if p, ok := a.Ports[mon.Name+".Bottom"]; ok {
			p.AcceptHook(mon.Hook("down"))
		}
	}

	a := Run(&c.Cfg, w)
	fillOutcome(&out, &c.Cfg, w, a)

	if w.V == nil && !w.CapHit {
		if !w.Ctrl.Done() {
			w.fail("control-monitor", "C18:control-request-unanswered", "run ended at t=%d with the control script at step %d of %d and %d request(s) never acknowledged (%s)",
				a.Eng.CurrentTime(), w.Ctrl.next, len(c.Steps), len(w.Ctrl.waiting), c.Agent)
		} else if len(w.Ctrl.Unknown) > 0 {
			w.fail("control-monitor", "C18:unsolicited-control-response", "control driver received %d response(s) matching no request", len(w.Ctrl.Unknown))
		}
	}

	out.Violation = w.V
	if out.Violation != nil && len(out.Violation.Sig) > 3 && out.Violation.Sig[:3] == "C16" {
		out.Violation.Sig = "C18:via-" + out.Violation.Sig + "(" + c.Agent + ")"
	}

	out.Fault("control-verb", len(w.Ctrl.Acks))
	out.Fault("reset-with-traffic", mon.Resets)
	out.Fault("drain-with-traffic", mon.Drains)
	out.Probe("refused-verbs", mon.Refusals)
	out.Probe("drain-or-flush-started-while-paused", mon.AsyncWhilePaused)
	out.Probe("requests-delivered-while-paused", mon.QueuedDuringPause)
	out.Probe("agent:"+c.Agent, 1)
	out.NonTrivial = len(w.Ctrl.Acks) >= 2 && len(mon.Delivered) > 0
	out.Shape = fmt.Sprintf("%s|%s|%v", c.Agent, out.Shape, c.Steps)
	out.Sample = map[string]any{"agent": c.Agent, "assembly": Describe(&c.Cfg), "script": stepNames(c.Steps), "acks": len(w.Ctrl.Acks)}

	return out
}

func stepNames(steps []CtrlStep) string {
	names := []string{"pause", "drain", "enable", "reset", "invalidate", "flush"}
	s := ""

	for _, st := range steps {
		s += names[st.Cmd]
		if !st.Wait {
			s += "(nowait)"
		}

		s += " "
	}

	return s
}

func init() {
	kit.Register(kit.Spec[c18Union]{
		ID: "C18", Level: "exploration",
		Rule: "one real agent of all twelve kinds (data mover between two harness memories; ideal / banked / DRAM controller, reorder buffer, write-back cache, write-around / write-evict / write-through cache; TLB, MMU cache, MMU, GMMU, address translator on their translation stacks) between 1-3 scripted requesters and (for agents with a Bottom port) the adversarial lower memory; a control driver issues 1-8 seeded verbs (all six, with address / process filters, back-to-back or awaiting acks, at seeded instants inside live traffic) and a final enable; " +
			"oracle = protocol monitor on the agent's Control / Top / Bottom ports ordered by a global sequence: one response per request with its command and ID in request order, support matrix and illegal-state refusals, no data response between a pause/drain ack and the next enable/reset ack, drain ack => every accepted request answered and nothing outstanding downstream, reset ack => no later answer to a request delivered before it, everything not reset completes after the final enable; the flat-memory oracle stays on when the script has no reset (and no invalidate of a write-back cache); " +
			"distinct = hash of (agent, assembly, events, script); non-trivial = >= 2 acknowledgments and traffic reached the agent",
		Assumptions: []string{"quiescence is judged from outside: accepted = retrieved from Top, answered = response sent on Top, downstream outstanding = sent on Bottom without a retrieved response"},
		Real:        []string{"mem/vm/tlb", "mem/vm/mmuCache", "mem/vm/mmu", "mem/vm/gmmu", "mem/vm/addresstranslator", "mem/idealmemcontroller", "mem/simplebankedmemory", "mem/dram", "mem/rob", "mem/cache/writeback", "mem/cache/writethroughcache", "mem/datamover", "mem/memcontrolprotocol", "noc/directconnection"},
		Stubs:       []string{"requesters", "control driver", "adversarial lower memory"},
		FaultKinds:  []string{"control-verb", "reset-with-traffic", "drain-with-traffic", "lower-response-delayed", "lower-response-reordered", "requester-stall-window"},
		Quick:       kit.Budget{Runs: 12000, WallS: 100},
		Thorough:    kit.Budget{Runs: 800000, WallS: 1500, CaseS: 300},
		Gen: func(r *kit.Rand, t kit.Tier) c18Union {
			if r.Chance(1, 14) {
				d := edm.GenC18DM(r, t)
				return c18Union{DM: &d}
			}

			if r.Chance(5, 13) { // 5 of the 13 agent kinds are virtual-memory agents
				v := evm.GenC18VM(r, t)
				return c18Union{VM: &v}
			}

			m := genC18(r, t)

			return c18Union{Mem: &m}
		},
		Exec: func(c c18Union, env *kit.Env) kit.Outcome {
			if c.DM != nil {
				return edm.ExecC18DM(*c.DM, env)
			}

			if c.VM != nil {
				return evm.ExecC18VM(*c.VM, env)
			}

			return execC18(*c.Mem, env)
		},
		Shrink: func(c c18Union) []c18Union {
			var out []c18Union

			if c.DM != nil {
				for _, q := range edm.ShrinkC18DM(*c.DM) {
					q := q
					out = append(out, c18Union{DM: &q})
				}

				return out
			}

			if c.VM != nil {
				for _, q := range evm.ShrinkC18VM(*c.VM) {
					q := q
					out = append(out, c18Union{VM: &q})
				}

				return out
			}

			for _, q := range shrinkC18(*c.Mem) {
				q := q
				out = append(out, c18Union{Mem: &q})
			}

			return out
		},
	})
}

// c18Union is either a memory agent or a virtual-memory agent run.
type c18Union struct {
	Mem *C18Case   `json:"mem,omitempty"`
	VM  *evm.C18VM `json:"vm,omitempty"`
	DM  *edm.C18DM `json:"dm,omitempty"`
}

func shrinkC18(c C18Case) []C18Case {
	var out []C18Case

	for _, l := range kit.ListShrinks(c.Steps[:len(c.Steps)-1]) {
		q := c
		q.Steps = append(append([]CtrlStep(nil), l...), c.Steps[len(c.Steps)-1])
		out = append(out, q)
	}

	for _, q := range ShrinkConfig(c.Cfg) {
		if len(q.Caches) != len(c.Cfg.Caches) || (q.Rob == nil) != (c.Cfg.Rob == nil) || q.Lower.Kind != c.Cfg.Lower.Kind {
			continue
		}

		out = append(out, C18Case{Agent: c.Agent, Cfg: q, Steps: c.Steps})
	}

	return out
}
