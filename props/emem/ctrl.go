package emem

import (
	"fmt"

	"github.com/sarchlab/akita/v5/mem/memcontrolprotocol"
	"github.com/sarchlab/akita/v5/mem/vm"
	"github.com/sarchlab/akita/v5/messaging"
	"github.com/sarchlab/akita/v5/modeling"
	"github.com/sarchlab/akita/v5/noc/directconnection"
	"github.com/sarchlab/akita/v5/timing"
)

// CtrlStep is one control request of a driver script.
type CtrlStep struct {
	Target    string   `json:"target"` // component name
	Cmd       int      `json:"cmd"`    // memcontrolprotocol.Command
	Addresses []uint64 `json:"addresses,omitempty"`
	PID       uint32   `json:"pid,omitempty"`
	At        uint64   `json:"at,omitempty"`   // not before this time
	AfterWork bool     `json:"after_work"`     // not before every requester finished
	Wait      bool     `json:"wait"`           // wait for this step's ack before the next step
	Mark      string   `json:"mark,omitempty"` // harness callback label run when the ack arrives
}

// CtrlAck is one observed control response.
type CtrlAck struct {
	Step    int
	Time    uint64
	Seq     uint64
	Rsp     memcontrolprotocol.Rsp
	SentAt  uint64
	SentSeq uint64
}

// CtrlDriver plays a control script against the Control ports of an assembly.
type CtrlDriver struct {
	a       *Asm
	w       *World
	tc      *modeling.TickingComponent
	port    messaging.Port
	steps   []CtrlStep
	next    int
	waiting map[uint64]int // request ID -> step
	sentAt  map[int][2]uint64
	blockOn int // step index awaited, -1 none
	Acks    []CtrlAck
	OnAck   func(d *CtrlDriver, ack CtrlAck, step CtrlStep)
	Unknown []memcontrolprotocol.Rsp
}

// NewCtrlDriver attaches a control driver to every Control port of the assembly.
func NewCtrlDriver(a *Asm, w *World, steps []CtrlStep) *CtrlDriver {
	d := &CtrlDriver{a: a, w: w, steps: steps, waiting: map[uint64]int{}, sentAt: map[int][2]uint64{}, blockOn: -1}
	d.tc = modeling.NewTickingComponent("CtrlDriver", a.Eng, 1*timing.GHz, d)
	d.tc.DeclarePort("Ctrl", memcontrolprotocol.Requester)
	d.port = a.port(d.tc, "Ctrl", 16)

	spec := directconnection.DefaultSpec()
	conn := directconnection.MakeBuilder().WithRegistrar(a.Reg).WithSpec(spec).Build("CtrlConn")
	conn.PlugIn(d.port)

	for _, p := range a.Ctrl {
		conn.PlugIn(p)
	}

	// make sure time-triggered steps get a tick
	for _, s := range steps {
		if s.At > 0 {
			a.Eng.Schedule(ctrlPoke{t: timing.VTimeInPicoSec(s.At)})
		}
	}

	a.Eng.RegisterHandler("CtrlPoker", ctrlPoker{d})
	d.tc.TickLater()

	return d
}

type ctrlPoke struct{ t timing.VTimeInPicoSec }

func (e ctrlPoke) Time() timing.VTimeInPicoSec { return e.t }
func (e ctrlPoke) HandlerID() string           { return "CtrlPoker" }
func (e ctrlPoke) IsSecondary() bool           { return false }

type ctrlPoker struct{ d *CtrlDriver }

func (p ctrlPoker) Handle(_ timing.Event) error {
	p.d.tc.TickLater()
	return nil
}

// Poke asks the driver to look at its script again.
func (d *CtrlDriver) Poke() { d.tc.TickLater() }

// Done reports whether the whole script was sent and every awaited ack arrived.
func (d *CtrlDriver) Done() bool { return d.next == len(d.steps) && len(d.waiting) == 0 }

func (d *CtrlDriver) workDone() bool {
	for _, r := range d.a.Reqs {
		if !r.Finished() {
			return false
		}
	}

	return true
}

// Tick implements modeling.Ticker.
func (d *CtrlDriver) Tick() bool {
	progress := false
	now := uint64(d.a.Eng.CurrentTime())

	for {
		m := d.port.RetrieveIncoming()
		if m == nil {
			break
		}

		progress = true

		rsp, ok := m.(memcontrolprotocol.Rsp)
		if !ok {
			d.w.fail("control-monitor", "C18:non-control-message", "control driver received %T", m)
			continue
		}

		step, known := d.waiting[rsp.RspTo]
		if !known {
			d.Unknown = append(d.Unknown, rsp)
			continue
		}

		delete(d.waiting, rsp.RspTo)
		d.w.Seq++
		ack := CtrlAck{Step: step, Time: now, Seq: d.w.Seq, Rsp: rsp, SentAt: d.sentAt[step][0], SentSeq: d.sentAt[step][1]}
		d.Acks = append(d.Acks, ack)

		if d.blockOn == step {
			d.blockOn = -1
		}

		if d.OnAck != nil {
			d.OnAck(d, ack, d.steps[step])
		}
	}

	for d.next < len(d.steps) && d.blockOn < 0 {
		s := d.steps[d.next]

		if s.At > now {
			break
		}

		if s.AfterWork && !d.workDone() {
			break
		}

		target, ok := d.a.Ctrl[s.Target]
		if !ok {
			panic(fmt.Sprintf("harness: control target %q does not exist", s.Target))
		}

		if !d.port.CanSend() {
			break
		}

		id := timing.GetIDGenerator().Generate()
		d.port.Send(memcontrolprotocol.Req{
			MsgMeta: messaging.MsgMeta{ID: id, Src: d.port.AsRemote(), Dst: target.AsRemote(), TrafficBytes: 4, TrafficClass: "memcontrolprotocol.Req"},
			Command: memcontrolprotocol.Command(s.Cmd), Addresses: s.Addresses, PID: vm.PID(s.PID),
		})
		d.w.Seq++
		d.waiting[id] = d.next
		d.sentAt[d.next] = [2]uint64{now, d.w.Seq}

		if s.Wait {
			d.blockOn = d.next
		}

		d.next++
		progress = true
	}

	return progress
}

// NewPort builds and registers a port for a harness component of this assembly.
func (a *Asm) NewPort(comp messaging.Component, name string, buf int) messaging.Port {
	return a.port(comp, name, buf)
}
