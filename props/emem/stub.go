package emem

import (
	"fmt"

	"github.com/sarchlab/akita/v5/mem/memprotocol"
	"github.com/sarchlab/akita/v5/messaging"
	"github.com/sarchlab/akita/v5/modeling"
	"github.com/sarchlab/akita/v5/timing"

	"verif/sim/kit"
)

// StubMem is the adversarial lower memory: semantically a flat memory (requests
// take effect in arrival order), but it answers after seeded delays and, when
// Reorder is set, in a seeded order. Responses are matched by RspTo, so this is
// legal for every requester of the mem protocol.
type StubMem struct {
	name    string
	tc      *modeling.TickingComponent
	port    messaging.Port
	eng     *timing.SerialEngine
	rng     *kit.Rand
	cfg     *LowerCfg
	store   map[uint64]byte
	pending []stubPending
	serial  int
	period  uint64
	// Log of what the stub answered, keyed by request address (unique-address workloads).
	ReadData  map[uint64][]byte
	Arrivals  []StubArrival
	Sent      int
	Reordered int
}

// StubArrival records one request as it reached the stub.
type StubArrival struct {
	ID    uint64
	Addr  uint64
	Write bool
	Src   messaging.RemotePort
}

type stubPending struct {
	readyAt uint64
	rsp     messaging.Msg
	serial  int
}

func newStubMem(name string, a *Asm, cfg *LowerCfg, idx int) *StubMem {
	s := &StubMem{
		name: name, eng: a.Eng, cfg: cfg, store: map[uint64]byte{}, ReadData: map[uint64][]byte{},
		rng: kit.NewRand(kit.Derive(cfg.StubSeed, "stub", uint64(idx))),
	}
	freq := timing.Freq(cfg.FreqHz)
	s.period = uint64(freq.Period())
	s.tc = modeling.NewTickingComponent(name, a.Eng, freq, s)
	s.tc.DeclarePort("Top", memprotocol.Responder)
	s.port = a.port(s.tc, "Top", cfg.PortBuf)

	return s
}

// Tick implements modeling.Ticker.
func (s *StubMem) Tick() bool {
	now := uint64(s.eng.CurrentTime())
	progress := false
	width := s.cfg.Width

	if width < 1 {
		width = 1
	}

	for i := 0; i < width; i++ {
		m := s.port.RetrieveIncoming()
		if m == nil {
			break
		}

		progress = true
		s.accept(m, now)
	}

	// answer what is ready, in arrival order or in a seeded order
	for {
		var ready []int

		for i, p := range s.pending {
			if p.readyAt <= now {
				ready = append(ready, i)
			}
		}

		if len(ready) == 0 || !s.port.CanSend() {
			break
		}

		pick := ready[0]
		if s.cfg.StubReorder {
			pick = ready[s.rng.Intn(len(ready))]

			if pick != ready[0] {
				s.Reordered++
			}
		}

		s.port.Send(s.pending[pick].rsp)
		s.pending = append(s.pending[:pick], s.pending[pick+1:]...)
		s.Sent++
		progress = true
	}

	return progress || len(s.pending) > 0
}

func (s *StubMem) accept(m messaging.Msg, now uint64) {
	s.serial++
	delay := uint64(s.rng.Range(s.cfg.StubMinDelay, s.cfg.StubMaxDelay)) * s.period
	meta := messaging.MsgMeta{
		ID: timing.GetIDGenerator().Generate(), Src: s.port.AsRemote(), Dst: m.Meta().Src, RspTo: m.Meta().ID,
	}

	switch req := m.(type) {
	case memprotocol.ReadReq:
		data := make([]byte, req.AccessByteSize)

		if s.cfg.StubUnique {
			for i := range data {
				data[i] = byte(s.rng.Uint64())
			}

			s.ReadData[req.Address] = data
		} else {
			for i := range data {
				data[i] = s.store[req.Address+uint64(i)]
			}
		}

		meta.TrafficBytes = len(data) + 4
		meta.TrafficClass = "memprotocol.DataReadyRsp"
		s.pending = append(s.pending, stubPending{readyAt: now + delay, serial: s.serial, rsp: memprotocol.DataReadyRsp{MsgMeta: meta, Data: data}})
		s.Arrivals = append(s.Arrivals, StubArrival{ID: req.ID, Addr: req.Address, Src: req.Src})
	case memprotocol.WriteReq:
		for i := range req.Data {
			if req.DirtyMask == nil || req.DirtyMask[i] {
				s.store[req.Address+uint64(i)] = req.Data[i]
			}
		}

		meta.TrafficBytes = 4
		meta.TrafficClass = "memprotocol.WriteDoneRsp"
		s.pending = append(s.pending, stubPending{readyAt: now + delay, serial: s.serial, rsp: memprotocol.WriteDoneRsp{MsgMeta: meta}})
		s.Arrivals = append(s.Arrivals, StubArrival{ID: req.ID, Addr: req.Address, Write: true, Src: req.Src})
	default:
		panic(kit.HarnessError(fmt.Sprintf("stub memory received %T", m)))
	}
}

// Byte returns the stub's stored byte (for end-of-run comparisons).
func (s *StubMem) Byte(addr uint64) byte { return s.store[addr] }
