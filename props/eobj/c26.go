package eobj

import (
	"bytes"
	"encoding/json"
	"fmt"
	"io"
	"os"
	"strings"

	"github.com/sarchlab/akita/v5/mem/vm"

	"verif/sim/kit"
)

type ptOp struct {
	K    string `json:"k"` // ins upd rem find rev restart
	PID  uint32 `json:"pid,omitempty"`
	VPg  uint64 `json:"vpg,omitempty"` // virtual page number
	PPg  uint64 `json:"ppg,omitempty"` // physical page number
	Off  uint64 `json:"off,omitempty"`
	Flag int    `json:"flag,omitempty"`
}

type ptCase struct {
	Log2  uint64 `json:"log2"`
	Ops   []ptOp `json:"ops"`
	Fresh bool   `json:"fresh"` // also execute in a fresh process
}

type ckpt interface {
	SaveCheckpoint(w io.Writer) error
	LoadCheckpoint(r io.Reader) error
}

func genPT(r *kit.Rand, tier kit.Tier) ptCase {
	c := ptCase{Log2: uint64(r.PickInt(12, 12, 6, 16, 21)), Fresh: r.Chance(1, 40)}
	n := r.Range(3, 60)

	if tier == kit.Thorough {
		n = r.Range(3, 300)
	}

	npid := r.Range(1, 5)
	nv := r.Range(1, 6)
	np := r.Range(1, 5) // few physical pages => sharing is common
	have := map[[2]uint64]bool{}

	for i := 0; i < n; i++ {
		pid := uint32(1 + r.Intn(npid))
		v := uint64(r.Intn(nv))
		key := [2]uint64{uint64(pid), v}

		switch r.Weighted(6, 2, 2, 4, 6, 1) {
		case 0:
			if !have[key] {
				c.Ops = append(c.Ops, ptOp{K: "ins", PID: pid, VPg: v, PPg: uint64(r.Intn(np)), Flag: r.Intn(16)})
				have[key] = true
			}
		case 1:
			if have[key] {
				c.Ops = append(c.Ops, ptOp{K: "upd", PID: pid, VPg: v, PPg: uint64(r.Intn(np)), Flag: r.Intn(16)})
			}
		case 2:
			if have[key] {
				c.Ops = append(c.Ops, ptOp{K: "rem", PID: pid, VPg: v})
				delete(have, key)
			}
		case 3:
			c.Ops = append(c.Ops, ptOp{K: "find", PID: pid, VPg: v, Off: r.Uint64() % (1 << c.Log2)})
		case 4:
			c.Ops = append(c.Ops, ptOp{K: "rev", PPg: uint64(r.Intn(np + 1))})
		default:
			// Flag 1: the rebuilt table is not empty when the checkpoint is loaded (the
			// build code of a simulation inserted its initial mapping and looked it up)
			c.Ops = append(c.Ops, ptOp{K: "restart", PID: pid, VPg: v, PPg: uint64(r.Intn(np)), Flag: r.Intn(2)})
		}
	}

	return c
}

// runPT executes the history on a real page table. It returns the result
// sequence and, when checkModel, the first disagreement with the map model.
var prepop int // restarts of the current execution that loaded into a table already in use

func runPT(c ptCase, withRestarts bool) (results []string, v *kit.Violation, shared int, restarts int) {
	pt := vm.NewPageTable(c.Log2)
	model := map[[2]uint64]vm.Page{}
	ps := uint64(1) << c.Log2

	mk := func(op ptOp) vm.Page {
		return vm.Page{
			PID: vm.PID(op.PID), VAddr: op.VPg * ps, PAddr: op.PPg * ps, PageSize: ps, Valid: op.Flag&8 == 0,
			DeviceID: uint64(op.Flag), Unified: op.Flag&1 == 1, IsMigrating: op.Flag&2 == 2, IsPinned: op.Flag&4 == 4,
		}
	}

	for i, op := range c.Ops {
		key := [2]uint64{uint64(op.PID), op.VPg}

		switch op.K {
		case "ins":
			if _, ok := model[key]; ok {
				continue // shrinking may have removed the matching remove
			}

			pt.Insert(mk(op))
			model[key] = mk(op)
		case "upd":
			if _, ok := model[key]; !ok {
				continue
			}

			pt.Update(mk(op))
			model[key] = mk(op)
		case "rem":
			if _, ok := model[key]; !ok {
				continue
			}

			pt.Remove(vm.PID(op.PID), op.VPg*ps)
			delete(model, key)
		case "find":
			got, found := pt.Find(vm.PID(op.PID), op.VPg*ps+op.Off)
			want, ok := model[key]

			if found != ok || (ok && got != want) {
				return results, kit.Violate("map-model", "C26:find", "op #%d %+v: Find = (%+v,%v), model says (%+v,%v)", i, op, got, found, want, ok), shared, restarts
			}

			results = append(results, fmt.Sprintf("find:%v:%+v", found, got))
		case "rev":
			got, found := pt.ReverseLookup(op.PPg * ps)
			n := 0
			match := false

			for _, p := range model {
				if p.PAddr == op.PPg*ps {
					n++

					if p == got {
						match = true
					}
				}
			}

			if n > 1 {
				shared++
			}

			if found != (n > 0) {
				return results, kit.Violate("map-model", "C26:reverse-existence", "op #%d %+v: ReverseLookup found=%v but %d pages have that physical address", i, op, found, n), shared, restarts
			}

			if found && !match {
				return results, kit.Violate("map-model", "C26:reverse-wrong-page", "op #%d %+v: ReverseLookup returned %+v, which is not a page of the table with that physical address", i, op, got), shared, restarts
			}

			results = append(results, fmt.Sprintf("rev:%v:%+v", found, got))
		case "restart":
			if !withRestarts {
				continue
			}

			var buf bytes.Buffer
			if err := pt.(ckpt).SaveCheckpoint(&buf); err != nil {
				return results, kit.Violate("checkpoint", "C26:save", "SaveCheckpoint: %v", err), shared, restarts
			}

			npt := vm.NewPageTable(c.Log2)

			if op.Flag == 1 {
				pre := mk(ptOp{PID: op.PID, VPg: op.VPg, PPg: op.PPg + 7, Flag: 5})
				npt.Insert(pre)
				npt.Find(pre.PID, pre.VAddr)
				prepop++
			}

			if err := npt.(ckpt).LoadCheckpoint(&buf); err != nil {
				return results, kit.Violate("checkpoint", "C26:load", "LoadCheckpoint: %v", err), shared, restarts
			}

			pt = npt
			restarts++
		}
	}

	return results, nil, shared, restarts
}

func firstDiff(a, b []string) string {
	for i := 0; i < len(a) && i < len(b); i++ {
		if a[i] != b[i] {
			return fmt.Sprintf("result #%d: %s vs %s", i, a[i], b[i])
		}
	}

	return fmt.Sprintf("lengths %d vs %d", len(a), len(b))
}

func execPT(c ptCase, env *kit.Env) kit.Outcome {
	var out kit.Outcome

	base, v, shared, _ := runPT(c, false)
	if v != nil {
		out.Violation = v
		return out
	}

	reps := 3
	if shared > 0 {
		reps = 6
	}

	for k := 0; k < reps; k++ {
		again, v, _, _ := runPT(c, false)
		if v != nil {
			out.Violation = v
			return out
		}

		if strings.Join(again, "|") != strings.Join(base, "|") {
			out.Violation = kit.Violate("repeat-execution", "C26:lookup-not-a-function-of-history",
				"the same history gave different lookup results in execution %d of the same process: %s", k+2, firstDiff(base, again))
			return out
		}
	}

	prepop = 0
	withR, v, _, restarts := runPT(c, true)
	if v != nil {
		out.Violation = v
		return out
	}

	if strings.Join(withR, "|") != strings.Join(base, "|") {
		out.Violation = kit.Violate("restart-invisible", "C26:checkpoint-changes-lookups",
			"lookup results differ when the table is saved and loaded in the middle of the history: %s", firstDiff(base, withR))
		return out
	}

	if c.Fresh && env.Exe != "" {
		raw, _ := json.Marshal(c)

		outp, err := kit.RunFresh(env, "c26", raw, []string{"GOMAXPROCS=3"})
		if err != nil {
			panic(kit.HarnessError("c26 helper: " + err.Error()))
		}

		var other []string
		if err := json.Unmarshal(outp, &other); err != nil {
			panic(kit.HarnessError("c26 helper output: " + err.Error()))
		}

		if strings.Join(other, "|") != strings.Join(base, "|") {
			out.Violation = kit.Violate("repeat-execution", "C26:lookup-not-a-function-of-history",
				"the same history gave different lookup results in a fresh process: %s", firstDiff(base, other))
			return out
		}

		out.Probe("fresh-process-execution", 1)
	}

	out.Steps = uint64(len(c.Ops) * (reps + 2))
	out.Fault("restart(checkpoint)", restarts)
	out.Fault("restart-into-prepopulated-table", prepop)
	out.Probe("reverse-lookup-of-shared-physical-page", shared)
	out.Shape = fmt.Sprint(c.Log2, c.Ops)
	out.NonTrivial = shared > 0
	out.Sample = map[string]any{"log2": c.Log2, "ops": len(c.Ops), "results": len(base), "first": c.Ops[:min(5, len(c.Ops))]}

	return out
}

func init() {
	kit.RegisterHelper("c26", func(_ []string) {
		raw, _ := io.ReadAll(os.Stdin)

		var c ptCase
		if err := json.Unmarshal(raw, &c); err != nil {
			os.Exit(2)
		}

		res, _, _, _ := runPT(c, false)
		b, _ := json.Marshal(res)
		_, _ = os.Stdout.Write(b)
	})
	kit.Register(kit.Spec[ptCase]{
		ID:    "C26",
		Level: "exploration",
		Rule: "histories of Insert/Update/Remove/Find/ReverseLookup/checkpoint-restart on vm.PageTable over 1-5 processes, 1-6 virtual and 1-5 physical pages (sharing is common), page sizes 2^6..2^21; every history is executed 4-7 times in one process " +
			"(fresh maps => fresh iteration order), once with the restarts applied, and 1 in 40 also in a fresh process; oracle = map model + identical result sequences; distinct = hash of the history; non-trivial = a reverse lookup hit a physical page shared by >= 2 table entries",
		Assumptions: []string{"only well-formed operations are generated (insert of an absent page, update/remove of a present page, page-aligned addresses for insert/remove)"},
		Real:        []string{"vm.PageTable", "page table checkpoint codec"},
		Stubs:       []string{},
		FaultKinds:  []string{"restart(checkpoint)", "restart-into-prepopulated-table"},
		ReplayTries: 20,
		Quick:       kit.Budget{Runs: 20000, WallS: 60},
		Thorough:    kit.Budget{Runs: 1000000, WallS: 600},
		Gen:         genPT,
		Exec:        execPT,
		Shrink: func(c ptCase) []ptCase {
			var out []ptCase
			for _, l := range kit.ListShrinks(c.Ops) {
				q := c
				q.Ops = l
				out = append(out, q)
			}

			return out
		},
	})
}
