package eobj

import (
	"encoding/json"
	"fmt"

	"github.com/sarchlab/akita/v5/mem/vm/lruset"

	"verif/sim/kit"
)

type lruCase struct {
	Ways int  `json:"ways"`
	Ops  []Op `json:"ops"` // K: lookup(A=key) bind(A=way,B=newkey) remove(A=key) evict visit(A=way) json
}

func genLRU(r *kit.Rand, tier kit.Tier) lruCase {
	c := lruCase{Ways: r.Range(1, 8)}
	n := r.Range(1, 50)

	if tier == kit.Thorough {
		n = r.Range(1, 300)
	}

	nkeys := r.Range(1, 10)

	for i := 0; i < n; i++ {
		switch r.Weighted(5, 4, 2, 4, 5, 1) {
		case 0:
			c.Ops = append(c.Ops, Op{K: "lookup", A: r.Intn(nkeys)})
		case 1:
			c.Ops = append(c.Ops, Op{K: "bind", A: r.Intn(c.Ways), B: r.Intn(nkeys)})
		case 2:
			c.Ops = append(c.Ops, Op{K: "remove", A: r.Intn(nkeys)})
		case 3:
			c.Ops = append(c.Ops, Op{K: "evict"})
		case 4:
			c.Ops = append(c.Ops, Op{K: "visit", A: r.Intn(c.Ways)})
		default:
			c.Ops = append(c.Ops, Op{K: "json"})
		}
	}

	return c
}

// keys are plain strings to the set: mostly the consumers' KeyString form, plus the
// empty string and one that needs escaping in JSON
func lruKey(k int) string {
	switch k {
	case 7:
		return ""
	case 8:
		return "a\"b\\\u00e9\n<&>\x00"
	}

	return lruset.KeyString(uint64(k%3), uint64(k)*4096)
}

func execLRU(c lruCase, _ *kit.Env) kit.Outcome {
	var out kit.Outcome

	s := lruset.NewSet(c.Ways)
	set := &s

	// reference model: key -> way; recency list, least recent first; the key each
	// way is currently bound to (what a consumer such as the TLB tracks itself).
	keyMap := map[string]int{}
	wayKey := map[int]string{}

	var recency []int
	for w := 0; w < c.Ways; w++ {
		recency = append(recency, w)
	}

	fail := func(i int, sig, f string, a ...any) kit.Outcome {
		out.Violation = kit.Violate("lru-model", "C28:"+sig, "ways=%d op #%d %v: %s", c.Ways, i, c.Ops[i], fmt.Sprintf(f, a...))
		return out
	}

	restarts, emptyEvicts, evicts := 0, 0, 0

	for i, op := range c.Ops {
		switch op.K {
		case "lookup":
			got, found := set.Lookup(lruKey(op.A))
			want, ok := keyMap[lruKey(op.A)]

			if found != ok || (ok && got != want) {
				return fail(i, "lookup", "Lookup = (%d,%v), model says (%d,%v)", got, found, want, ok)
			}
		case "bind":
			// consumers (TLB, mmuCache) derive oldKey from the block payload of the way,
			// which keeps its last key after a Remove and is the zero key before any fill
			old, ok := wayKey[op.A]
			if !ok {
				old = lruset.KeyString(0, 0)
			}

			nk := lruKey(op.B)
			set.UpdateKey(op.A, old, nk)
			delete(keyMap, old)
			keyMap[nk] = op.A
			wayKey[op.A] = nk
		case "remove":
			k := lruKey(op.A)
			set.Remove(k)
			delete(keyMap, k) // the payload of the way keeps the key
		case "evict":
			got, ok := set.Evict()
			if len(recency) == 0 {
				emptyEvicts++

				if ok {
					return fail(i, "evict-empty", "Evict returned way %d from an empty recency list", got)
				}

				continue
			}

			evicts++

			if !ok || got != recency[0] {
				return fail(i, "evict-order", "Evict = (%d,%v), least recently visited way is %d (recency %v)", got, ok, recency[0], recency)
			}

			recency = recency[1:]
		case "visit":
			set.Visit(op.A)

			for k, w := range recency {
				if w == op.A {
					recency = append(recency[:k:k], recency[k+1:]...)
					break
				}
			}

			recency = append(recency, op.A)
		case "json":
			raw, err := json.Marshal(*set)
			if err != nil {
				return fail(i, "json", "marshal: %v", err)
			}

			var ns lruset.Set

			if i%2 == 1 {
				// restore into a live set that already holds other content
				ns = lruset.NewSet(c.Ways + 1)
				ns.UpdateKey(0, "", "stale")
				ns.Evict()
			}

			if err := json.Unmarshal(raw, &ns); err != nil {
				return fail(i, "json", "unmarshal: %v", err)
			}

			set = &ns
			restarts++
		}
	}

	// final: all bindings and the complete recency order
	for k, w := range keyMap {
		got, found := set.Lookup(k)
		if !found || got != w {
			out.Violation = kit.Violate("lru-model", "C28:final-lookup", "key %s: Lookup = (%d,%v), model says way %d", k, got, found, w)
			return out
		}
	}

	for k, w := range recency {
		got, ok := set.Evict()
		if !ok || got != w {
			out.Violation = kit.Violate("lru-model", "C28:final-order", "draining: eviction #%d = (%d,%v), model recency %v", k, got, ok, recency)
			return out
		}
	}

	if w, ok := set.Evict(); ok {
		out.Violation = kit.Violate("lru-model", "C28:final-order", "set still evicts way %d after the model's recency list is empty", w)
		return out
	}

	out.Steps = uint64(len(c.Ops))
	out.Fault("restart(json)", restarts)
	out.Probe("evict-from-empty-list", emptyEvicts)
	out.Probe("evictions", evicts)
	out.Shape = fmt.Sprint(c.Ways, c.Ops)
	out.NonTrivial = evicts > 0 && len(c.Ops) >= 5
	out.Sample = map[string]any{"ways": c.Ways, "ops": opKinds(c.Ops)}

	return out
}

func init() {
	kit.Register(kit.Spec[lruCase]{
		ID:    "C28",
		Level: "exploration",
		Rule: "histories of Lookup/UpdateKey/Remove/Evict/Visit/JSON-restart on lruset.Set with 1-8 ways and 1-10 keys, compared step by step with a (key map, recency list) model and drained completely at the end; " +
			"distinct = hash of the history; non-trivial = at least 5 operations and one eviction",
		Assumptions: []string{"UpdateKey is called the way the TLB and mmuCache call it: oldKey is the key in the way's block payload (the zero key before the first fill, and still the old key after a Remove)", "no clock or concurrency: JSON restart is the only fault"},
		Real:        []string{"lruset.Set", "lruset JSON codec"},
		Stubs:       []string{},
		FaultKinds:  []string{"restart(json)"},
		Quick:       kit.Budget{Runs: 40000, WallS: 60},
		Thorough:    kit.Budget{Runs: 2000000, WallS: 600},
		Gen:         genLRU,
		Exec:        execLRU,
		Shrink: func(c lruCase) []lruCase {
			var out []lruCase
			for _, l := range kit.ListShrinks(c.Ops) {
				q := c
				q.Ops = l
				out = append(out, q)
			}

			return out
		},
	})
}
