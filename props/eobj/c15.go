package eobj

import (
	"encoding/json"
	"fmt"

	"github.com/sarchlab/akita/v5/queueing"

	"verif/sim/kit"
)

type pipeTick struct {
	Accept  []int `json:"acc,omitempty"` // delays of the items offered before this tick
	Room    int   `json:"room"`          // free sink slots during this tick
	Restart bool  `json:"restart,omitempty"`
}

type pipeCase struct {
	Width  int        `json:"width"`
	Stages int        `json:"stages"`
	Ticks  []pipeTick `json:"ticks"`
}

type pipeSink struct {
	room int
	tick int
	out  *[][2]int // (item, tick)
}

func (s *pipeSink) CanPush() bool { return s.room > 0 }
func (s *pipeSink) PushTyped(item int) {
	if s.room <= 0 {
		panic(kit.HarnessError("pipeline pushed into a sink that reported no room"))
	}

	s.room--
	*s.out = append(*s.out, [2]int{item, s.tick})
}

func genPipe(r *kit.Rand, tier kit.Tier) pipeCase {
	c := pipeCase{Width: r.Range(1, 4), Stages: r.Weighted(0, 4, 3, 2, 2, 1, 1)}

	switch r.Intn(12) {
	case 0:
		c.Width = r.PickInt(8, 16, 17, 33)
	case 1:
		c.Width = r.PickInt(64, 65, 100, 130) // beyond any machine-word lane mask
	}

	wide := c.Width > 4
	n := r.Range(1, 40)

	if tier == kit.Thorough {
		n = r.Range(1, 200)
	}

	sinkMode := r.Intn(3) // 0 roomy always, 1 random, 2 long stalls
	delayMode := r.Intn(3)
	stall := 0

	for i := 0; i < n; i++ {
		t := pipeTick{Room: 1 << 20}

		na := r.Weighted(3, 4, 2, 1)
		if wide && r.Chance(1, 2) {
			na = r.Range(c.Width/2, c.Width+1)
		}

		for k := 0; k < na; k++ {
			d := 0

			switch delayMode {
			case 1:
				d = r.Intn(4)
			case 2:
				d = r.Weighted(4, 2, 1, 1)
			}

			t.Accept = append(t.Accept, d)
		}

		switch sinkMode {
		case 1:
			t.Room = r.Intn(c.Width + 2)
		case 2:
			if stall == 0 && r.Chance(1, 6) {
				stall = r.Range(1, 10)
			}

			if stall > 0 {
				t.Room = 0
				stall--
			}
		}

		t.Restart = r.Chance(1, 12)
		c.Ticks = append(c.Ticks, t)
	}

	return c
}

func execPipe(c pipeCase, _ *kit.Env) kit.Outcome {
	var out kit.Outcome

	pl := queueing.NewPipeline[int](c.Width, c.Stages)
	p := &pl

	type info struct{ acceptTick, delay int }

	items := map[int]info{}
	var order []int
	var exits [][2]int

	sink := &pipeSink{out: &exits}
	nextID, maxDelay, restarts, blockedTicks := 1, 0, 0, 0
	alwaysRoomy := true

	fail := func(sig, f string, a ...any) kit.Outcome {
		out.Violation = kit.Violate("pipeline-model", "C15:"+sig, f, a...)
		return out
	}

	checkStages := func(t int) *kit.Violation {
		seen := map[[2]int]int{}

		for _, s := range p.Stages() {
			if s.Lane < 0 || s.Lane >= c.Width || s.Stage < 0 || s.Stage >= c.Stages {
				return kit.Violate("pipeline-model", "C15:slot-range", "tick %d: item %d at lane %d stage %d outside %dx%d", t, s.Item, s.Lane, s.Stage, c.Width, c.Stages)
			}

			k := [2]int{s.Lane, s.Stage}
			if other, dup := seen[k]; dup {
				return kit.Violate("pipeline-model", "C15:lane-collision", "tick %d: items %d and %d both occupy lane %d of stage %d", t, other, s.Item, s.Lane, s.Stage)
			}

			seen[k] = s.Item
		}

		return nil
	}

	tick := 0

	step := func(pt pipeTick) *kit.Violation {
		if pt.Restart {
			raw, err := json.Marshal(*p)
			if err != nil {
				return kit.Violate("pipeline-model", "C15:json", "marshal: %v", err)
			}

			var np queueing.Pipeline[int]

			if tick%2 == 1 {
				// restore into a live pipeline that already holds other content
				np = queueing.NewPipeline[int](c.Width+1, c.Stages+1)
				np.Accept(-5)
			}

			if err := json.Unmarshal(raw, &np); err != nil {
				return kit.Violate("pipeline-model", "C15:json", "unmarshal: %v", err)
			}

			p = &np
			restarts++
		}

		for _, d := range pt.Accept {
			if !p.CanAccept() {
				break
			}

			id := nextID
			nextID++

			if d == 0 {
				p.Accept(id)
			} else {
				p.AcceptWithDelay(id, d)
			}

			items[id] = info{acceptTick: tick, delay: d}
			order = append(order, id)

			if d > maxDelay {
				maxDelay = d
			}
		}

		if v := checkStages(tick); v != nil {
			return v
		}

		tick++
		sink.tick = tick
		sink.room = pt.Room

		if pt.Room < c.Width {
			alwaysRoomy = false

			if len(p.Stages()) > 0 {
				blockedTicks++
			}
		}

		p.Tick(sink)

		return checkStages(tick)
	}

	for _, pt := range c.Ticks {
		if v := step(pt); v != nil {
			out.Violation = v
			return out
		}
	}

	// the sink now always has room: everything must leave within stages+maxDelay+1 ticks
	for k := 0; k < c.Stages+maxDelay+1; k++ {
		if v := step(pipeTick{Room: 1 << 20}); v != nil {
			out.Violation = v
			return out
		}
	}

	left := map[int]int{}
	for _, e := range exits {
		left[e[0]]++

		if _, ok := items[e[0]]; !ok {
			return fail("phantom", "item %d left the pipeline but was never accepted", e[0])
		}
	}

	for _, id := range order {
		switch left[id] {
		case 1:
		case 0:
			in := items[id]

			return fail(fmt.Sprintf("stranded(stages=%d,delay>0=%v)", min(c.Stages, 2), in.delay > 0),
				"item %d (accepted after tick %d, delay %d) never left a %d-lane %d-stage pipeline although the sink had room for %d ticks; still inside: %v",
				id, in.acceptTick, in.delay, c.Width, c.Stages, c.Stages+maxDelay+1, p.Stages())
		default:
			return fail("duplicated", "item %d left the pipeline %d times", id, left[id])
		}
	}

	if c.Width == 1 {
		for i, e := range exits {
			if e[0] != order[i] {
				return fail("fifo", "one-lane pipeline: exit #%d is item %d, accepted order says %d", i, e[0], order[i])
			}
		}
	}

	if alwaysRoomy {
		for _, e := range exits {
			in := items[e[0]]
			if want := in.acceptTick + c.Stages + in.delay; e[1] != want {
				return fail(fmt.Sprintf("latency(stages=%d)", min(c.Stages, 2)), "item %d accepted after tick %d with delay %d left at tick %d, want %d (= accept + %d stages + delay)",
					e[0], in.acceptTick, in.delay, e[1], want, c.Stages)
			}
		}

		out.Probe("always-roomy-sink", 1)
	}

	if len(p.Stages()) != 0 {
		return fail("residue", "pipeline still reports occupants after every item left: %v", p.Stages())
	}

	out.Steps = uint64(tick)
	out.Fault("restart(json)", restarts)
	out.Fault("sink-stall-tick", blockedTicks)
	out.Probe("delayed-item", btoi(maxDelay > 0))
	out.Probe("one-stage-with-delay", btoi(maxDelay > 0 && c.Stages == 1))
	out.Shape = fmt.Sprint(c.Width, c.Stages, exits)
	out.NonTrivial = len(order) >= 2 && (blockedTicks > 0 || maxDelay > 0 || restarts > 0)
	out.Sample = map[string]any{"width": c.Width, "stages": c.Stages, "items": len(order), "exits(item,tick)": exits}

	return out
}

func btoi(b bool) int {
	if b {
		return 1
	}

	return 0
}

func shrinkPipe(c pipeCase) []pipeCase {
	var out []pipeCase

	for _, l := range kit.ListShrinks(c.Ticks) {
		q := c
		q.Ticks = l
		out = append(out, q)
	}

	for i, t := range c.Ticks {
		if len(t.Accept) > 0 {
			q := c
			q.Ticks = append([]pipeTick(nil), c.Ticks...)
			q.Ticks[i].Accept = t.Accept[:len(t.Accept)-1]
			out = append(out, q)
		}

		if t.Restart {
			q := c
			q.Ticks = append([]pipeTick(nil), c.Ticks...)
			q.Ticks[i].Restart = false
			out = append(out, q)
		}
	}

	if c.Width > 1 {
		q := c
		q.Width--
		out = append(out, q)
	}

	return out
}

func init() {
	kit.Register(kit.Spec[pipeCase]{
		ID:    "C15",
		Level: "exploration",
		Rule: "tick scripts on queueing.Pipeline[int]: width 1-4 (1 in 6: 8-130 lanes), 1-6 stages, per-item dwell delay 0-3, accepts bounded by CanAccept, sink room per tick (always roomy / random / long stalls), JSON restart mid-flight; " +
			"after the script the sink is roomy for stages+maxDelay+1 ticks; distinct = hash of geometry + (item, exit tick) list; non-trivial = >=2 items and (a blocked sink tick, a delayed item or a restart)",
		Assumptions: []string{"the pipeline has no clock of its own; a tick is one call of Tick; restart (JSON) and sink stalls are the fault dimension"},
		Real:        []string{"queueing.Pipeline", "pipeline JSON codec"},
		Stubs:       []string{"sink with scripted room"},
		FaultKinds:  []string{"restart(json)", "sink-stall-tick"},
		Quick:       kit.Budget{Runs: 40000, WallS: 60},
		Thorough:    kit.Budget{Runs: 2000000, WallS: 600},
		Gen:         genPipe,
		Exec:        execPipe,
		Shrink:      shrinkPipe,
	})
}
