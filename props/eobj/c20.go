package eobj

import (
	"bytes"
	"errors"
	"fmt"
	"io"

	"github.com/sarchlab/akita/v5/mem"

	"verif/sim/kit"
)

type stOp struct {
	K    string `json:"k"` // w r restart save-fail load-short
	Addr uint64 `json:"addr,omitempty"`
	Len  uint64 `json:"len,omitempty"`
	Fill byte   `json:"fill,omitempty"`
	Cut  int    `json:"cut,omitempty"`
}

type stCase struct {
	Cap  uint64 `json:"cap"`
	Unit uint64 `json:"unit"`
	Ops  []stOp `json:"ops"`
}

func genStorage(r *kit.Rand, tier kit.Tier) stCase {
	var c stCase

	switch r.Weighted(6, 2, 1, 1) {
	case 0:
		c.Cap = uint64(r.Range(1, 300))
	case 1:
		c.Cap = r.PickU64(4096, 8192, 1<<20, 4096+17)
	case 2:
		c.Cap = r.PickU64(1<<32, 1<<63, 1<<63+5)
	default:
		c.Cap = ^uint64(0) - uint64(r.Intn(3))
	}

	c.Unit = r.PickU64(1, 2, 3, 4, 7, 8, 16, 64, 100, 4096)

	n := r.Range(1, 30)
	if tier == kit.Thorough {
		n = r.Range(1, 150)
	}

	addr := func(l uint64) uint64 {
		switch r.Intn(10) {
		case 0:
			return c.Cap - 1
		case 1:
			return c.Cap
		case 2:
			return c.Cap + 1
		case 3:
			return c.Cap - l
		case 4:
			return c.Cap - l + 1
		case 5:
			return ^uint64(0) - l + 1 + uint64(r.Intn(3)) // wraps or ends at the very top
		case 6:
			return (uint64(r.Intn(8)) * c.Unit) - uint64(r.Intn(2)) // unit edges
		case 7:
			return 0
		default:
			if c.Cap > 1 {
				return r.Uint64() % c.Cap
			}

			return 0
		}
	}

	for i := 0; i < n; i++ {
		l := uint64(r.PickInt(1, 1, 2, 3, 4, 8, 9, 17, 64, 130))

		switch r.Weighted(8, 8, 2, 1, 1) {
		case 0:
			c.Ops = append(c.Ops, stOp{K: "w", Addr: addr(l), Len: l, Fill: byte(1 + r.Intn(250))})
		case 1:
			c.Ops = append(c.Ops, stOp{K: "r", Addr: addr(l), Len: l})
		case 2:
			c.Ops = append(c.Ops, stOp{K: "restart", Cut: r.Intn(2)})
		case 3:
			c.Ops = append(c.Ops, stOp{K: "save-fail", Cut: r.Intn(64)})
		default:
			c.Ops = append(c.Ops, stOp{K: "load-short", Cut: r.Intn(64)})
		}
	}

	return c
}

type failWriter struct {
	left int
}

var errInjected = errors.New("injected write error")

func (w *failWriter) Write(p []byte) (int, error) {
	if len(p) > w.left {
		n := w.left
		w.left = 0

		return n, errInjected
	}

	w.left -= len(p)

	return len(p), nil
}

func execStorage(c stCase, _ *kit.Env) kit.Outcome {
	var out kit.Outcome

	st := mem.NewStorageWithUnitSize(c.Cap, c.Unit)
	model := map[uint64]byte{}
	oob, restarts, streamFaults, wraps := 0, 0, 0, 0

	fail := func(i int, sig, f string, a ...any) kit.Outcome {
		out.Violation = kit.Violate("byte-array-model", "C20:"+sig, "cap=%d unit=%d op #%d %+v: %s", c.Cap, c.Unit, i, c.Ops[i], fmt.Sprintf(f, a...))
		return out
	}

	// in-range part of [addr, addr+len) as (start, n)
	inRange := func(addr, l uint64) (uint64, uint64) {
		if addr >= c.Cap {
			return 0, 0
		}

		if l > c.Cap-addr {
			l = c.Cap - addr
		}

		return addr, l
	}

	verify := func(i int, start, n uint64, what string) *kit.Outcome {
		if n == 0 {
			return nil
		}

		got, err := st.Read(start, n)
		if err != nil {
			o := fail(i, "valid-read-error", "%s: in-range read [%d,+%d) failed: %v", what, start, n, err)
			return &o
		}

		for k := uint64(0); k < n; k++ {
			if got[k] != model[start+k] {
				o := fail(i, "contents-changed", "%s: byte at %d is %d, model says %d", what, start+k, got[k], model[start+k])
				return &o
			}
		}

		return nil
	}

	verifyAll := func(i int, what string) *kit.Outcome {
		if c.Cap <= 512 {
			return verify(i, 0, c.Cap, what)
		}

		for a := range model {
			if o := verify(i, a, 1, what); o != nil {
				return o
			}
		}

		return nil
	}

	for i, op := range c.Ops {
		valid := op.Addr < c.Cap && op.Len <= c.Cap-op.Addr
		wrap := op.Addr+op.Len < op.Addr

		switch op.K {
		case "w":
			data := make([]byte, op.Len)
			for k := range data {
				data[k] = op.Fill + byte(k)
			}

			err := st.Write(op.Addr, data)

			if valid {
				if err != nil {
					return fail(i, "valid-write-error", "in-range write failed: %v", err)
				}

				for k := range data {
					model[op.Addr+uint64(k)] = data[k]
				}

				// the caller reuses its buffer afterwards: the storage must hold a copy
				for k := range data {
					data[k] = 0xA5
				}
			} else {
				oob++

				if wrap {
					wraps++
				}

				if err == nil {
					return fail(i, oobSig("write", op, c), "write touching an address >= capacity returned no error")
				}

				s, n := inRange(op.Addr, op.Len)
				if o := verify(i, s, n, "after refused write"); o != nil {
					o.Violation.Sig = "C20:refused-write-changed-contents"
					return *o
				}
			}
		case "r":
			got, err := st.Read(op.Addr, op.Len)

			if valid {
				if err != nil {
					return fail(i, "valid-read-error", "in-range read failed: %v", err)
				}

				if uint64(len(got)) != op.Len {
					return fail(i, "read-len", "read returned %d bytes want %d", len(got), op.Len)
				}

				for k := range got {
					if got[k] != model[op.Addr+uint64(k)] {
						return fail(i, "read-data", "byte at %d is %d, model says %d", op.Addr+uint64(k), got[k], model[op.Addr+uint64(k)])
					}
				}
			} else {
				oob++

				if wrap {
					wraps++
				}

				if err == nil {
					return fail(i, oobSig("read", op, c), "read touching an address >= capacity returned no error")
				}
			}
		case "restart":
			var buf bytes.Buffer
			if err := st.SaveCheckpoint(&buf); err != nil {
				return fail(i, "save", "SaveCheckpoint: %v", err)
			}

			ns := mem.NewStorageWithUnitSize(c.Cap, c.Unit)

			if op.Cut%2 == 1 {
				// restore in place: the live storage is written after the save (also
				// in a unit the checkpoint does not contain) and must revert completely
				ns = st

				for _, a := range []uint64{0, c.Cap / 2, c.Cap - 1} {
					_ = st.Write(a, []byte{0xEE})
				}
			}

			if err := ns.LoadCheckpoint(&buf); err != nil {
				return fail(i, "load", "LoadCheckpoint: %v", err)
			}

			st = ns
			restarts++

			if o := verifyAll(i, "after checkpoint restart"); o != nil {
				o.Violation.Sig = "C20:restart-contents"
				return *o
			}
		case "save-fail":
			streamFaults++

			var full bytes.Buffer
			_ = st.SaveCheckpoint(&full)

			if op.Cut < full.Len() {
				if err := st.SaveCheckpoint(&failWriter{left: op.Cut}); err == nil {
					return fail(i, "save-error-swallowed", "SaveCheckpoint into a writer failing after %d of %d bytes returned nil", op.Cut, full.Len())
				}
			}
		case "load-short":
			streamFaults++

			var full bytes.Buffer
			_ = st.SaveCheckpoint(&full)

			if op.Cut < full.Len() {
				ns := mem.NewStorageWithUnitSize(c.Cap, c.Unit)
				err := ns.LoadCheckpoint(io.LimitReader(bytes.NewReader(full.Bytes()), int64(op.Cut)))

				if err == nil {
					return fail(i, "short-load-accepted", "LoadCheckpoint of a stream cut at %d of %d bytes returned nil", op.Cut, full.Len())
				}
			}
		}

		if op.K == "w" || op.K == "r" {
			if c.Cap <= 512 {
				if o := verifyAll(i, "after op"); o != nil {
					return *o
				}
			}
		}
	}

	if o := verifyAll(len(c.Ops)-1, "at end"); o != nil {
		return *o
	}

	out.Steps = uint64(len(c.Ops))
	out.Fault("restart(checkpoint)", restarts)
	out.Fault("stream-error(failing-writer|short-reader)", streamFaults)
	out.Probe("out-of-range-access", oob)
	out.Probe("wrapping-access", wraps)
	out.Probe("capacity-not-multiple-of-unit", btoi(c.Cap%c.Unit != 0))
	out.Shape = fmt.Sprintf("%d/%d/%v", c.Cap, c.Unit, c.Ops)
	out.NonTrivial = oob > 0 && len(model) > 0
	out.Sample = map[string]any{"cap": c.Cap, "unit": c.Unit, "ops": len(c.Ops), "first_ops": c.Ops[:min(4, len(c.Ops))]}

	return out
}

// oobSig classifies an accepted out-of-range access, so that known findings are
// specific: at-capacity / crossing / wrapping / beyond.
func oobSig(kind string, op stOp, c stCase) string {
	switch {
	case op.Addr+op.Len < op.Addr:
		return kind + "-wrapping-accepted"
	case op.Addr == c.Cap:
		return kind + "-at-capacity-accepted"
	case op.Addr < c.Cap:
		return kind + "-crossing-capacity-accepted"
	default:
		return kind + "-beyond-capacity-accepted"
	}
}

func shrinkStorage(c stCase) []stCase {
	var out []stCase

	for _, l := range kit.ListShrinks(c.Ops) {
		q := c
		q.Ops = l
		out = append(out, q)
	}

	return out
}

func init() {
	kit.Register(kit.Spec[stCase]{
		ID:    "C20",
		Level: "exploration",
		Rule: "read/write histories on mem.Storage with capacities {1-300, 4 KiB.., 2^32, 2^63, 2^64-1..} and unit sizes {1,2,3,4,7,8,16,64,100,4096} (not dividing each other), addresses biased to capacity-1/capacity/capacity+1, " +
			"unit edges and the top of the address space (wrapping ranges), checkpoint restart and failing/short streams as generated operations; oracle = zero-initialised byte-array model, refused accesses must leave contents unchanged " +
			"(full read-back when capacity <= 512); distinct = hash of the case; non-trivial = at least one out-of-range access and one successful write",
		Assumptions: []string{"zero-length accesses are not generated (they touch no address)", "the storage has no clock: restart and stream errors are the fault dimension"},
		Real:        []string{"mem.Storage", "mem storage checkpoint codec"},
		Stubs:       []string{"failing io.Writer", "short io.Reader"},
		FaultKinds:  []string{"restart(checkpoint)", "stream-error(failing-writer|short-reader)"},
		Quick:       kit.Budget{Runs: 30000, WallS: 60},
		Thorough:    kit.Budget{Runs: 1500000, WallS: 600},
		Gen:         genStorage,
		Exec:        execStorage,
		Shrink:      shrinkStorage,
	})
}
