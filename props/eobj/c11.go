package eobj

import (
	"bytes"
	"fmt"
	"io"
	"reflect"

	"github.com/sarchlab/akita/v5/hooking"
	"github.com/sarchlab/akita/v5/messaging"

	"verif/props/enet"
	"verif/sim/kit"
)

// c11Case is either an object-level history or an in-situ network run.
type c11Case struct {
	Obj *portCase     `json:"obj,omitempty"`
	Net *enet.NetCase `json:"net,omitempty"`
}

type portCase struct {
	InCap  int  `json:"in_cap"`
	OutCap int  `json:"out_cap"`
	Hooks  bool `json:"hooks"`
	Ops    []Op `json:"ops"` // send deliver retrI retrO peekI peekO query restart
}

// portMsg is the message type used for port histories; it is registered with the
// message codec so that checkpoint restart can carry it.
type portMsg struct {
	messaging.MsgMeta
	Body string
}

type stubComp struct {
	hooking.HookableBase
	*messaging.PortOwnerBase
	recv, free []string
}

func (c *stubComp) Name() string                    { return "StubComp" }
func (c *stubComp) NotifyRecv(p messaging.Port)     { c.recv = append(c.recv, p.Name()) }
func (c *stubComp) NotifyPortFree(p messaging.Port) { c.free = append(c.free, p.Name()) }

type stubConn struct {
	hooking.HookableBase
	send  int
	avail []string
}

func (c *stubConn) Name() string                     { return "StubConn" }
func (c *stubConn) PlugIn(p messaging.Port)          { p.SetConnection(c) }
func (c *stubConn) Unplug(_ messaging.Port)          {}
func (c *stubConn) NotifyAvailable(p messaging.Port) { c.avail = append(c.avail, p.Name()) }
func (c *stubConn) NotifySend()                      { c.send++ }

type portHookRec struct{ log *[]string }

func (h portHookRec) Func(ctx hooking.HookCtx) {
	*h.log = append(*h.log, fmt.Sprintf("%s:%d", ctx.Pos.Name, ctx.Item.(portMsg).ID))
}

func genPort(r *kit.Rand, tier kit.Tier) portCase {
	c := portCase{InCap: r.Weighted(0, 4, 3, 2, 1), OutCap: r.Weighted(0, 4, 3, 2, 1), Hooks: r.Bool()}
	n := r.Range(1, 60)

	if tier == kit.Thorough {
		n = r.Range(1, 400)
	}

	for i := 0; i < n; i++ {
		k := []string{"send", "deliver", "retrI", "retrO", "peekI", "peekO", "query", "restart"}[r.Weighted(6, 6, 5, 5, 2, 2, 2, 1)]
		c.Ops = append(c.Ops, Op{K: k, A: i + 1, S: randStr(r)})
	}

	return c
}

type ckptPort interface {
	SaveCheckpoint(w io.Writer) error
	LoadCheckpoint(r io.Reader) error
}

func execPort(c portCase, _ *kit.Env) kit.Outcome {
	var out kit.Outcome

	messaging.RegisterMsg(portMsg{})

	comp := &stubComp{PortOwnerBase: messaging.NewPortOwnerBase()}
	conn := &stubConn{}

	var hookLog, wantHook []string

	mk := func() messaging.Port {
		p := messaging.NewPort(comp, c.InCap, c.OutCap, "StubComp.P")
		conn.PlugIn(p)

		if c.Hooks {
			p.AcceptHook(portHookRec{&hookLog})
		}

		return p
	}
	port := mk()

	var in, outq []portMsg

	fail := func(i int, sig, f string, a ...any) kit.Outcome {
		out.Violation = kit.Violate("port-model", "C11:"+sig, "caps in=%d out=%d op #%d %v: %s", c.InCap, c.OutCap, i, c.Ops[i], fmt.Sprintf(f, a...))
		return out
	}

	// expected notification counters
	wantRecv, wantFree, wantSend, wantAvail := 0, 0, 0, 0
	fullIn, fullOut, restarts := 0, 0, 0

	check := func(i int) *kit.Outcome {
		if len(comp.recv) != wantRecv {
			o := fail(i, "owner-recv-notification", "owner got %d receive notifications, want %d (only when an empty incoming buffer receives a message)", len(comp.recv), wantRecv)
			return &o
		}

		if len(comp.free) != wantFree {
			o := fail(i, "owner-free-notification", "owner got %d port-free notifications, want %d (only when a full outgoing buffer frees a slot)", len(comp.free), wantFree)
			return &o
		}

		if conn.send != wantSend {
			o := fail(i, "conn-send-notification", "connection got %d send notifications, want %d (only when an empty outgoing buffer receives a message)", conn.send, wantSend)
			return &o
		}

		if len(conn.avail) != wantAvail {
			o := fail(i, "conn-available-notification", "connection got %d available notifications, want %d (only when a full incoming buffer frees a slot)", len(conn.avail), wantAvail)
			return &o
		}

		if port.NumIncoming() != len(in) || port.NumOutgoing() != len(outq) {
			o := fail(i, "size-report", "NumIncoming/NumOutgoing = %d/%d, model %d/%d", port.NumIncoming(), port.NumOutgoing(), len(in), len(outq))
			return &o
		}

		if port.CanSend() != (len(outq) < c.OutCap) || port.CanDeliver() != (len(in) < c.InCap) {
			o := fail(i, "can-report", "CanSend/CanDeliver = %v/%v with %d/%d outgoing and %d/%d incoming", port.CanSend(), port.CanDeliver(), len(outq), c.OutCap, len(in), c.InCap)
			return &o
		}

		return nil
	}

	for i, op := range c.Ops {
		m := portMsg{MsgMeta: messaging.MsgMeta{ID: uint64(op.A), Src: "StubComp.P", Dst: "Other.P", TrafficBytes: len(op.S), TrafficClass: "x"}, Body: op.S}

		switch op.K {
		case "send":
			if !port.CanSend() {
				if len(outq) < c.OutCap {
					return fail(i, "can-report", "CanSend false with room")
				}

				if !tryPanic(func() { port.Send(m) }) {
					return fail(i, "overflow-accepted", "Send into a full outgoing buffer (capacity %d) was accepted", c.OutCap)
				}

				fullOut++

				continue
			}

			if len(outq) == 0 {
				wantSend++
			}

			port.Send(m)
			outq = append(outq, m)
			wantHook = append(wantHook, fmt.Sprintf("Port Msg Send:%d", m.ID))
		case "deliver":
			m.Src, m.Dst = "Other.P", "StubComp.P"

			if !port.CanDeliver() {
				if len(in) < c.InCap {
					return fail(i, "can-report", "CanDeliver false with room")
				}

				if !tryPanic(func() { port.Deliver(m) }) {
					return fail(i, "overflow-accepted", "Deliver into a full incoming buffer (capacity %d) was accepted", c.InCap)
				}

				fullIn++

				continue
			}

			if len(in) == 0 {
				wantRecv++
			}

			port.Deliver(m)
			in = append(in, m)
			wantHook = append(wantHook, fmt.Sprintf("Port Msg Recv:%d", m.ID))
		case "retrI":
			got := port.RetrieveIncoming()

			if len(in) == 0 {
				if got != nil {
					return fail(i, "fifo", "RetrieveIncoming on an empty buffer returned %v", got)
				}

				continue
			}

			if !reflect.DeepEqual(got, messaging.Msg(in[0])) {
				return fail(i, "fifo", "RetrieveIncoming = %v, want %v", got, in[0])
			}

			if len(in) == c.InCap {
				wantAvail++
			}

			wantHook = append(wantHook, fmt.Sprintf("Port Msg Retrieve Incoming:%d", in[0].ID))
			in = in[1:]
		case "retrO":
			got := port.RetrieveOutgoing()

			if len(outq) == 0 {
				if got != nil {
					return fail(i, "fifo", "RetrieveOutgoing on an empty buffer returned %v", got)
				}

				continue
			}

			if !reflect.DeepEqual(got, messaging.Msg(outq[0])) {
				return fail(i, "fifo", "RetrieveOutgoing = %v, want %v", got, outq[0])
			}

			if len(outq) == c.OutCap {
				wantFree++
			}

			wantHook = append(wantHook, fmt.Sprintf("Port Msg Retrieve Outgoing:%d", outq[0].ID))
			outq = outq[1:]
		case "peekI":
			got := port.PeekIncoming()
			if (len(in) == 0) != (got == nil) || (len(in) > 0 && !reflect.DeepEqual(got, messaging.Msg(in[0]))) {
				return fail(i, "peek", "PeekIncoming = %v, model head %v", got, in)
			}
		case "peekO":
			got := port.PeekOutgoing()
			if (len(outq) == 0) != (got == nil) || (len(outq) > 0 && !reflect.DeepEqual(got, messaging.Msg(outq[0]))) {
				return fail(i, "peek", "PeekOutgoing = %v, model head %v", got, outq)
			}
		case "restart":
			var buf bytes.Buffer
			if err := port.(ckptPort).SaveCheckpoint(&buf); err != nil {
				return fail(i, "checkpoint", "SaveCheckpoint: %v", err)
			}

			np := mk()

			if op.A%2 == 1 {
				// load into a live port that already holds other messages
				if c.InCap > 0 {
					np.Deliver(portMsg{MsgMeta: messaging.MsgMeta{ID: 900001, Src: "Other.P", Dst: "StubComp.P"}, Body: "stale"})
					wantRecv++

					if c.Hooks {
						wantHook = append(wantHook, "Port Msg Recv:900001")
					}
				}

				if c.OutCap > 0 {
					np.Send(portMsg{MsgMeta: messaging.MsgMeta{ID: 900002, Src: "StubComp.P", Dst: "Other.P"}, Body: "stale"})
					wantSend++

					if c.Hooks {
						wantHook = append(wantHook, "Port Msg Send:900002")
					}
				}
			}

			if err := np.(ckptPort).LoadCheckpoint(&buf); err != nil {
				return fail(i, "checkpoint", "LoadCheckpoint: %v", err)
			}

			port = np
			restarts++
		}

		if o := check(i); o != nil {
			return *o
		}
	}

	for len(in) > 0 {
		got := port.RetrieveIncoming()
		if !reflect.DeepEqual(got, messaging.Msg(in[0])) {
			out.Violation = kit.Violate("port-model", "C11:fifo", "final drain of incoming: got %v want %v", got, in[0])
			return out
		}

		wantHook = append(wantHook, fmt.Sprintf("Port Msg Retrieve Incoming:%d", in[0].ID))
		in = in[1:]
	}

	for len(outq) > 0 {
		got := port.RetrieveOutgoing()
		if !reflect.DeepEqual(got, messaging.Msg(outq[0])) {
			out.Violation = kit.Violate("port-model", "C11:fifo", "final drain of outgoing: got %v want %v", got, outq[0])
			return out
		}

		wantHook = append(wantHook, fmt.Sprintf("Port Msg Retrieve Outgoing:%d", outq[0].ID))
		outq = outq[1:]
	}

	if c.Hooks && !reflect.DeepEqual(hookLog, wantHook) {
		out.Violation = kit.Violate("hook-stream", "C11:hooks", "port hook stream differs from the model: got %d entries want %d", len(hookLog), len(wantHook))
		return out
	}

	out.Steps = uint64(len(c.Ops))
	out.Fault("restart(checkpoint)", restarts)
	out.Probe("send-refused-at-capacity", fullOut)
	out.Probe("deliver-refused-at-capacity", fullIn)
	out.Probe("notifications", wantRecv+wantFree+wantSend+wantAvail)
	out.Shape = fmt.Sprint(c.InCap, c.OutCap, opKinds(c.Ops))
	out.NonTrivial = wantFree > 0 && wantAvail > 0
	out.Sample = map[string]any{"in_cap": c.InCap, "out_cap": c.OutCap, "ops": opKinds(c.Ops)}

	return out
}

func init() {
	kit.Register(kit.Spec[c11Case]{
		ID:    "C11",
		Level: "exploration",
		Rule: "two-party histories on one real port between a stub component and a stub connection: Send/Deliver/RetrieveIncoming/RetrieveOutgoing/Peek*/Num*/Can* and checkpoint restart, independent incoming/outgoing capacities 1-4; " +
			"oracle = two bounded FIFOs plus the four notification edges, counted exactly (notified when stated and not otherwise); the same port model also runs in situ on every port of the C09/C10/C12 network simulations; " +
			"distinct = hash of capacities + operation kinds; non-trivial = the history contains both a full->not-full outgoing and a full->not-full incoming transition",
		Assumptions: []string{"Send/Deliver are only called after CanSend/CanDeliver, as documented; a call into a full buffer must be refused (panic)", "the port has no clock: the schedule is the interleaving of component-side and connection-side calls; restart is the fault"},
		Real:        []string{"messaging.Port (defaultPort)", "queueing.Buffer", "port checkpoint codec", "in situ: directconnection, TickingComponent, EventDrivenComponent, SerialEngine"},
		Stubs:       []string{"component (notification recorder)", "connection (notification recorder)"},
		FaultKinds:  []string{"restart(checkpoint)", "receiver-stall-window", "back-pressure(send-blocked)"},
		Quick:       kit.Budget{Runs: 40000, WallS: 60},
		Thorough:    kit.Budget{Runs: 2000000, WallS: 600},
		Gen: func(r *kit.Rand, tier kit.Tier) c11Case {
			if r.Chance(1, 4) {
				n := enet.GenNet(r, tier, 3)
				return c11Case{Net: &n}
			}

			p := genPort(r, tier)

			return c11Case{Obj: &p}
		},
		Exec: func(c c11Case, env *kit.Env) kit.Outcome {
			if c.Net != nil {
				o := enet.PortMonitorRun(*c.Net)
				o.Shape = "net:" + o.Shape
				o.Probe("in-situ-network-run", 1)

				return o
			}

			return execPort(*c.Obj, env)
		},
		Shrink: func(c c11Case) []c11Case {
			var out []c11Case

			if c.Net != nil {
				for _, n := range enet.ShrinkNet(*c.Net) {
					n := n
					out = append(out, c11Case{Net: &n})
				}

				return out
			}

			for _, l := range kit.ListShrinks(c.Obj.Ops) {
				q := *c.Obj
				q.Ops = l
				out = append(out, c11Case{Obj: &q})
			}

			return out
		},
	})
}
