// Package eobj drives single stateful library objects through seeded operation
// histories (restart = snapshot/restore or a JSON / checkpoint round trip into a
// fresh instance is one more generated operation) and compares every result with
// a trivial reference model.
package eobj

import (
	"encoding/json"
	"fmt"
	"reflect"
	"strings"

	"github.com/sarchlab/akita/v5/hooking"
	"github.com/sarchlab/akita/v5/queueing"

	"verif/sim/kit"
)

// Op is one generated operation on an object.
type Op struct {
	K string `json:"k"`
	A int    `json:"a,omitempty"`
	B int    `json:"b,omitempty"`
	S string `json:"s,omitempty"`
}

func (o Op) String() string { return fmt.Sprintf("%s(%d,%d,%q)", o.K, o.A, o.B, o.S) }

type bufCase struct {
	Name  string `json:"name"`
	Cap   int    `json:"cap"`
	Hooks bool   `json:"hooks"`
	Ops   []Op   `json:"ops"`
}

type elem struct {
	ID  int    `json:"id"`
	Tag string `json:"tag"`
	Raw []byte `json:"raw"`
	// fields that are absent from the JSON form when zero: a decoder that reuses
	// old element memory would let stale values through
	Opt     int            `json:"opt,omitempty"`
	Waiters []int          `json:"waiters,omitempty"`
	Marks   map[string]int `json:"marks,omitempty"`
}

type bufHook struct{ log *[]string }

func (h bufHook) Func(ctx hooking.HookCtx) {
	*h.log = append(*h.log, fmt.Sprintf("%s:%d", ctx.Pos.Name, ctx.Item.(elem).ID))
}

// tryPanic runs f and reports whether it panicked.
func tryPanic(f func()) (panicked bool) {
	defer func() {
		if r := recover(); r != nil {
			panicked = true
		}
	}()

	f()

	return false
}

func genBuf(r *kit.Rand, tier kit.Tier) bufCase {
	c := bufCase{Name: "Buf" + string(rune('A'+r.Intn(26))), Cap: r.Weighted(1, 3, 3, 2, 2, 1), Hooks: r.Bool()}
	n := r.Range(1, 60)

	if tier == kit.Thorough {
		n = r.Range(1, 400)
	}

	id := 0

	for i := 0; i < n; i++ {
		id++

		switch r.Weighted(8, 6, 3, 2, 1, 3, 2, 2, 2, 2) {
		case 0:
			c.Ops = append(c.Ops, Op{K: "push", A: id, S: randStr(r)})
		case 1:
			c.Ops = append(c.Ops, Op{K: "pop"})
		case 2:
			c.Ops = append(c.Ops, Op{K: "peek"})
		case 3:
			c.Ops = append(c.Ops, Op{K: "update", A: id, S: randStr(r)})
		case 4:
			c.Ops = append(c.Ops, Op{K: "clear"})
		case 5:
			c.Ops = append(c.Ops, Op{K: "query"})
		case 6:
			c.Ops = append(c.Ops, Op{K: "json", A: r.Intn(2)})
		case 7:
			c.Ops = append(c.Ops, Op{K: "snapshot"})
		case 8:
			c.Ops = append(c.Ops, Op{K: "restore", A: r.Intn(3)}) // A=1: restore more than capacity; A=2: restore into a fresh buffer
		default:
			c.Ops = append(c.Ops, Op{K: "elements"})
		}
	}

	return c
}

func randStr(r *kit.Rand) string {
	alphabet := []string{"a", "Z", "\"", "'", "\\", "é", "漢", "\x00", " ", "\n", "%", "0"}
	n := r.Intn(5)

	var sb strings.Builder
	for i := 0; i < n; i++ {
		sb.WriteString(alphabet[r.Intn(len(alphabet))])
	}

	return sb.String()
}

func execBuf(c bufCase, _ *kit.Env) kit.Outcome {
	var out kit.Outcome

	fail := func(i int, sig, f string, a ...any) kit.Outcome {
		out.Violation = kit.Violate("fifo-model", "C14:"+sig, "op #%d %v: %s", i, c.Ops[i], fmt.Sprintf(f, a...))
		return out
	}

	var hookLog, wantHook []string

	b := queueing.NewBuffer[elem](c.Name, c.Cap)
	buf := &b

	if c.Hooks {
		buf.AcceptHook(bufHook{&hookLog})
	}

	var model []elem

	var snap, snapModel []elem

	haveSnap := false
	full, restarts, refused := 0, 0, 0

	for i, op := range c.Ops {
		switch op.K {
		case "push":
			e := elem{ID: op.A, Tag: op.S, Raw: []byte(op.S)}
			if op.A%5 == 0 {
				e.Opt, e.Waiters = op.A+1, []int{op.A}
			}
			can := buf.CanPush()

			if can != (len(model) < c.Cap) {
				return fail(i, "canpush", "CanPush()=%v with %d/%d elements", can, len(model), c.Cap)
			}

			p := tryPanic(func() { buf.PushTyped(e) })
			if len(model) >= c.Cap {
				refused++

				if !p {
					return fail(i, "overflow-accepted", "push beyond capacity %d was not refused", c.Cap)
				}
			} else {
				if p {
					return fail(i, "push-panic", "push with room panicked")
				}

				model = append(model, e)
				wantHook = append(wantHook, fmt.Sprintf("Buffer Push:%d", e.ID))
			}

			if len(model) == c.Cap {
				full++
			}
		case "pop":
			got := buf.Pop()

			var want elem
			if len(model) > 0 {
				want = model[0]
				model = model[1:]
				wantHook = append(wantHook, fmt.Sprintf("Buffer Pop:%d", want.ID))
			}

			if !reflect.DeepEqual(got, want) {
				return fail(i, "pop", "Pop()=%v want %v", got, want)
			}
		case "peek":
			got := buf.Peek()

			var want elem
			if len(model) > 0 {
				want = model[0]
			}

			if !reflect.DeepEqual(got, want) {
				return fail(i, "peek", "Peek()=%v want %v", got, want)
			}
		case "update":
			e := elem{ID: op.A, Tag: op.S}
			buf.UpdateFront(e)

			if len(model) > 0 {
				model = append([]elem{e}, model[1:]...)
			}
		case "clear":
			buf.Clear()

			model = nil
		case "query":
			if buf.Size() != len(model) || buf.Capacity() != c.Cap || buf.Name() != c.Name {
				return fail(i, "query", "Size/Capacity/Name = %d/%d/%q want %d/%d/%q",
					buf.Size(), buf.Capacity(), buf.Name(), len(model), c.Cap, c.Name)
			}
		case "elements":
			got := buf.Elements()
			if len(got) != len(model) {
				return fail(i, "elements", "Elements() has %d entries want %d", len(got), len(model))
			}

			for k := range got {
				if !reflect.DeepEqual(got[k], model[k]) {
					return fail(i, "elements", "Elements()[%d]=%v want %v", k, got[k], model[k])
				}

				got[k] = elem{ID: -1} // mutating the copy must not reach the buffer
			}
		case "json":
			raw, err := json.Marshal(*buf)
			if err != nil {
				return fail(i, "json", "marshal: %v", err)
			}

			var nb queueing.Buffer[elem]

			if op.A == 1 {
				// restore into a live buffer that already holds other content
				nb = queueing.NewBuffer[elem]("Dirty", c.Cap+3)
				nb.PushTyped(elem{ID: -3, Tag: "stale", Opt: 9, Waiters: []int{7, 8}, Marks: map[string]int{"old": 1}})
				nb.PushTyped(elem{ID: -4, Tag: "stale", Opt: 8, Waiters: []int{6}, Marks: map[string]int{"old": 2}})
				nb.PushTyped(elem{ID: -5, Tag: "stale", Opt: 7, Marks: map[string]int{"old": 3}})
			}

			if err := json.Unmarshal(raw, &nb); err != nil {
				return fail(i, "json", "unmarshal: %v", err)
			}

			buf = &nb
			restarts++

			if c.Hooks {
				buf.AcceptHook(bufHook{&hookLog})
			}
		case "snapshot":
			snap = buf.Elements()
			snapModel = append([]elem(nil), model...)
			haveSnap = true
		case "restore":
			switch {
			case op.A == 1:
				too := make([]elem, c.Cap+1)
				if !tryPanic(func() { buf.Restore(too) }) {
					return fail(i, "restore-overflow", "Restore of %d elements into capacity %d accepted", len(too), c.Cap)
				}
			case haveSnap:
				if op.A == 2 {
					nb := queueing.NewBuffer[elem](buf.Name(), buf.Capacity())
					buf = &nb
					restarts++

					if c.Hooks {
						buf.AcceptHook(bufHook{&hookLog})
					}
				}

				// a snapshot is the caller's: whatever happened to the buffer since
				// (including later Elements() calls) must not have touched it
				if !reflect.DeepEqual(append([]elem{}, snap...), append([]elem{}, snapModel...)) {
					return fail(i, "snapshot-changed", "a slice returned by Elements() earlier now reads %v, it was %v", snap, snapModel)
				}

				buf.Restore(snap)

				model = append([]elem(nil), snapModel...)
				if len(snap) > 0 {
					snap[0] = elem{ID: -7} // the buffer must have copied
				}

				haveSnap = false
			}
		}

		// cross-invariants after every step
		if buf.Size() != len(model) {
			return fail(i, "size", "Size()=%d want %d", buf.Size(), len(model))
		}

		if buf.Size() > buf.Capacity() {
			return fail(i, "bound", "Size()=%d exceeds capacity %d", buf.Size(), buf.Capacity())
		}

		if buf.Name() != c.Name || buf.Capacity() != c.Cap {
			return fail(i, "identity", "name/capacity became %q/%d want %q/%d", buf.Name(), buf.Capacity(), c.Name, c.Cap)
		}

		if len(model) > 0 && !reflect.DeepEqual(buf.Peek(), model[0]) {
			return fail(i, "front", "front is %v want %v", buf.Peek(), model[0])
		}
	}

	// drain and compare the whole content
	for k := 0; len(model) > 0; k++ {
		got := buf.Pop()
		if !reflect.DeepEqual(got, model[0]) {
			out.Violation = kit.Violate("fifo-model", "C14:drain", "final drain #%d: got %v want %v", k, got, model[0])
			return out
		}

		wantHook = append(wantHook, fmt.Sprintf("Buffer Pop:%d", model[0].ID))
		model = model[1:]
	}

	if c.Hooks && !reflect.DeepEqual(hookLog, wantHook) {
		out.Violation = kit.Violate("hook-stream", "C14:hooks", "push/pop hook stream %v want %v", hookLog, wantHook)
		return out
	}

	out.Steps = uint64(len(c.Ops))
	out.Fault("restart(json|fresh-restore)", restarts)
	out.Probe("reached-capacity", full)
	out.Probe("refused-push", refused)
	out.Shape = fmt.Sprint(c.Cap, c.Hooks, opKinds(c.Ops))
	out.NonTrivial = refused > 0 || restarts > 0
	out.Sample = map[string]any{"cap": c.Cap, "ops": opKinds(c.Ops)}

	return out
}

func opKinds(ops []Op) string {
	var sb strings.Builder
	for _, o := range ops {
		sb.WriteString(o.K[:2])

		if o.A != 0 && o.K == "restore" {
			fmt.Fprintf(&sb, "%d", o.A)
		}

		sb.WriteByte(' ')
	}

	return sb.String()
}

func shrinkBuf(c bufCase) []bufCase {
	var out []bufCase

	for _, l := range kit.ListShrinks(c.Ops) {
		q := c
		q.Ops = l
		out = append(out, q)
	}

	if c.Hooks {
		q := c
		q.Hooks = false
		out = append(out, q)
	}

	return out
}

func init() {
	kit.Register(kit.Spec[bufCase]{
		ID:    "C14",
		Level: "exploration",
		Rule: "operation histories (push/pop/peek/update-front/clear/queries/Elements/snapshot/restore/JSON restart into a fresh buffer) on queueing.Buffer with capacities 0-5, hooks on/off, " +
			"compared step by step with a slice model; distinct = hash of (capacity, hooks, operation-kind sequence); non-trivial = a push was refused at capacity or a restart happened",
		Assumptions: []string{"the buffer has no clock or concurrency of its own: restart (snapshot/restore, JSON) is the only fault dimension"},
		Real:        []string{"queueing.Buffer", "queueing buffer JSON codec"},
		Stubs:       []string{"push/pop hook recorder"},
		FaultKinds:  []string{"restart(json|fresh-restore)"},
		Quick:       kit.Budget{Runs: 40000, WallS: 60},
		Thorough:    kit.Budget{Runs: 2000000, WallS: 600},
		Gen:         genBuf,
		Exec:        execBuf,
		Shrink:      shrinkBuf,
	})
}
