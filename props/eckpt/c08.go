package eckpt

import (
	"bytes"
	"encoding/json"
	"fmt"
	"io"
	"os"
	"path/filepath"
	"reflect"
	"sort"

	"github.com/sarchlab/akita/v5/mem/datamoverprotocol"
	"github.com/sarchlab/akita/v5/mem/memcontrolprotocol"
	"github.com/sarchlab/akita/v5/mem/memprotocol"
	"github.com/sarchlab/akita/v5/mem/vm/lruset"
	"github.com/sarchlab/akita/v5/mem/vm/vmprotocol"
	"github.com/sarchlab/akita/v5/messaging"
	"github.com/sarchlab/akita/v5/modeling"
	"github.com/sarchlab/akita/v5/noc/packetization"
	"github.com/sarchlab/akita/v5/queueing"
	"github.com/sarchlab/akita/v5/timing"

	"verif/props/emem"
	"verif/props/enoc"
	"verif/props/evm"
	"verif/sim/kit"
)

// C08Case: a configuration and cut (states reached by a workload) plus a seed
// for the generated message / event values.
type C08Case struct {
	Cfg  emem.Config `json:"cfg"`
	VM   *evm.Cfg    `json:"vm,omitempty"`
	Net  *enoc.Net   `json:"net,omitempty"`
	Cut  uint64      `json:"cut"`
	Seed uint64      `json:"seed"`
	N    int         `json:"n"`
}

// semEq is reflect.DeepEqual except that a nil and an empty slice / map are
// equal (the checkpoint encoding does not promise to keep that distinction for
// omitempty fields, and no component can tell them apart).
func semEq(a, b reflect.Value, path string) string {
	if a.IsValid() != b.IsValid() {
		return path + ": one side is invalid"
	}

	if !a.IsValid() {
		return ""
	}

	if a.Type() != b.Type() {
		return fmt.Sprintf("%s: concrete type %s became %s", path, a.Type(), b.Type())
	}

	switch a.Kind() {
	case reflect.Slice:
		if a.Len() != b.Len() {
			return fmt.Sprintf("%s: length %d became %d", path, a.Len(), b.Len())
		}

		for i := 0; i < a.Len(); i++ {
			if d := semEq(a.Index(i), b.Index(i), fmt.Sprintf("%s[%d]", path, i)); d != "" {
				return d
			}
		}
	case reflect.Array:
		for i := 0; i < a.Len(); i++ {
			if d := semEq(a.Index(i), b.Index(i), fmt.Sprintf("%s[%d]", path, i)); d != "" {
				return d
			}
		}
	case reflect.Map:
		if a.Len() != b.Len() {
			return fmt.Sprintf("%s: %d keys became %d", path, a.Len(), b.Len())
		}

		for _, k := range a.MapKeys() {
			bv := b.MapIndex(k)
			if !bv.IsValid() {
				return fmt.Sprintf("%s: key %v lost", path, k)
			}

			if d := semEq(a.MapIndex(k), bv, fmt.Sprintf("%s[%v]", path, k)); d != "" {
				return d
			}
		}
	case reflect.Struct:
		for i := 0; i < a.NumField(); i++ {
			f := a.Type().Field(i)
			if f.Name == "HookableBase" {
				continue
			}

			if d := semEq(a.Field(i), b.Field(i), path+"."+f.Name); d != "" {
				return d
			}
		}
	case reflect.Pointer, reflect.Interface:
		if a.IsNil() != b.IsNil() {
			return path + ": nil-ness changed"
		}

		if !a.IsNil() {
			return semEq(a.Elem(), b.Elem(), path)
		}
	case reflect.Bool:
		if a.Bool() != b.Bool() {
			return fmt.Sprintf("%s: %v became %v", path, a.Bool(), b.Bool())
		}
	case reflect.Int, reflect.Int8, reflect.Int16, reflect.Int32, reflect.Int64:
		if a.Int() != b.Int() {
			return fmt.Sprintf("%s: %d became %d", path, a.Int(), b.Int())
		}
	case reflect.Uint, reflect.Uint8, reflect.Uint16, reflect.Uint32, reflect.Uint64, reflect.Uintptr:
		if a.Uint() != b.Uint() {
			return fmt.Sprintf("%s: %d became %d", path, a.Uint(), b.Uint())
		}
	case reflect.Float32, reflect.Float64:
		if a.Float() != b.Float() {
			return fmt.Sprintf("%s: %v became %v", path, a.Float(), b.Float())
		}
	case reflect.String:
		if a.String() != b.String() {
			return fmt.Sprintf("%s: %q became %q", path, a.String(), b.String())
		}
	}

	return ""
}

// fill sets every settable exported field of v to a seeded value, biased to
// the values serialisation tends to get wrong.
func fill(v reflect.Value, r *kit.Rand, depth int) {
	switch v.Kind() {
	case reflect.Bool:
		v.SetBool(r.Bool())
	case reflect.Int, reflect.Int8, reflect.Int16, reflect.Int32, reflect.Int64:
		x := []int64{0, 1, -1, 1 << 31, -(1 << 31), 1<<62 + 12345, -(1 << 62)}[r.Intn(7)]
		if v.OverflowInt(x) {
			x = int64(r.Intn(100))
		}

		v.SetInt(x)
	case reflect.Uint, reflect.Uint8, reflect.Uint16, reflect.Uint32, reflect.Uint64:
		x := []uint64{0, 1, 255, 1 << 32, 1<<53 + 1, 1<<63 + 7, ^uint64(0)}[r.Intn(7)]
		if v.OverflowUint(x) {
			x = uint64(r.Intn(200))
		}

		v.SetUint(x)
	case reflect.Float32, reflect.Float64:
		v.SetFloat([]float64{0, 1.5, -2.25, 1e300, 1e-300}[r.Intn(5)])
	case reflect.String:
		v.SetString([]string{"", "a", "Port.Name[3]", "\"quoted\"", "\\back\\slash", "unicode é漢 ", "<html>&amp;", "\x00\x01", "tab\tnewline\n"}[r.Intn(9)])
	case reflect.Slice:
		switch r.Intn(4) {
		case 0:
			v.Set(reflect.Zero(v.Type())) // nil
		case 1:
			v.Set(reflect.MakeSlice(v.Type(), 0, 0)) // empty, non-nil
		default:
			n := r.Range(1, 5)
			s := reflect.MakeSlice(v.Type(), n, n)

			for i := 0; i < n; i++ {
				fill(s.Index(i), r, depth+1)
			}

			v.Set(s)
		}
	case reflect.Struct:
		for i := 0; i < v.NumField(); i++ {
			if v.Field(i).CanSet() && v.Type().Field(i).Type.Kind() != reflect.Interface {
				fill(v.Field(i), r, depth+1)
			}
		}
	}
}

var msgProtos = []messaging.Msg{
	memprotocol.ReadReq{}, memprotocol.WriteReq{}, memprotocol.DataReadyRsp{}, memprotocol.WriteDoneRsp{},
	memcontrolprotocol.Req{}, memcontrolprotocol.Rsp{},
	vmprotocol.TranslationReq{}, vmprotocol.TranslationRsp{},
	datamoverprotocol.DataMoveRequest{}, datamoverprotocol.DataMoveResponse{},
	packetization.Flit{}, packetization.AssembledMsg{},
}

type ckptIO interface {
	SaveCheckpoint(w io.Writer) error
	LoadCheckpoint(r io.Reader) error
}

type nullOwner struct {
	*messaging.PortOwnerBase
	name string
}

// generatedRoundTrips pushes seeded values of every library message type and
// every registered event type through the port / engine checkpoint encoding.
func generatedRoundTrips(seed uint64, n int) (*kit.Violation, int) {
	r := kit.NewRand(seed)
	count := 0

	// messages through a port, both buffers
	comp := modeling.NewTickingComponent("RoundTrip", timing.NewSerialEngine(), 1*timing.GHz, tickNothing{})
	src := messaging.NewPort(comp, n*len(msgProtos)+1, n*len(msgProtos)+1, "RoundTrip.P")
	src.SetConnection(&nullConn{})

	var sent []messaging.Msg

	for i := 0; i < n; i++ {
		for _, proto := range msgProtos {
			pv := reflect.New(reflect.TypeOf(proto)).Elem()
			fill(pv, r, 0)

			m := pv.Interface().(messaging.Msg)
			sent = append(sent, m)

			if i%2 == 0 {
				src.Deliver(m)
			} else {
				// Send validates Src/Dst; set them the way a sender would
				mv := reflect.New(reflect.TypeOf(proto)).Elem()
				mv.Set(pv)
				meta := mv.FieldByName("MsgMeta")
				meta.FieldByName("Src").SetString("RoundTrip.P")
				meta.FieldByName("Dst").SetString("Elsewhere.P")
				m = mv.Interface().(messaging.Msg)
				sent[len(sent)-1] = m
				src.Send(m)
			}

			count++
		}
	}

	var buf bytes.Buffer
	if err := src.(ckptIO).SaveCheckpoint(&buf); err != nil {
		return kit.Violate("generated-round-trip", "C08:port-save-error", "SaveCheckpoint of a port holding generated messages: %v", err), count
	}

	dst := messaging.NewPort(comp, n*len(msgProtos)+1, n*len(msgProtos)+1, "RoundTrip.P")
	dst.SetConnection(&nullConn{})

	if err := dst.(ckptIO).LoadCheckpoint(&buf); err != nil {
		return kit.Violate("generated-round-trip", "C08:port-load-error", "LoadCheckpoint of generated messages: %v", err), count
	}

	var got []messaging.Msg

	in, outq := []messaging.Msg{}, []messaging.Msg{}

	for m := dst.RetrieveIncoming(); m != nil; m = dst.RetrieveIncoming() {
		in = append(in, m)
	}

	for m := dst.RetrieveOutgoing(); m != nil; m = dst.RetrieveOutgoing() {
		outq = append(outq, m)
	}

	// re-interleave in generation order
	ii, oi := 0, 0
	for i := 0; i < n; i++ {
		for range msgProtos {
			if i%2 == 0 {
				if ii < len(in) {
					got = append(got, in[ii])
				}

				ii++
			} else {
				if oi < len(outq) {
					got = append(got, outq[oi])
				}

				oi++
			}
		}
	}

	if len(got) != len(sent) {
		return kit.Violate("generated-round-trip", "C08:port-message-count", "%d messages saved, %d restored", len(sent), len(got)), count
	}

	for i := range sent {
		if d := semEq(reflect.ValueOf(sent[i]), reflect.ValueOf(got[i]), fmt.Sprintf("%T", sent[i])); d != "" {
			return kit.Violate("generated-round-trip", "C08:message-changed["+fmt.Sprintf("%T", sent[i])+"]", "a %T did not survive the port checkpoint round trip: %s (value %+v)", sent[i], d, sent[i]), count
		}
	}

	// encapsulated containers that live inside component States: brought to seeded
	// states through their own API (including an LRU set between an Evict and the
	// next Visit, a pipeline with dwelling items), then through JSON
	for i := 0; i < n; i++ {
		ls := lruset.NewSet(r.Range(1, 6))
		for k := 0; k < r.Range(0, 12); k++ {
			switch r.Intn(4) {
			case 0:
				ls.Evict()
			case 1:
				ls.Visit(0)
			case 2:
				ls.UpdateKey(0, lruset.KeyString(0, 0), lruset.KeyString(uint64(r.Intn(3)), uint64(r.Intn(4))*4096))
			default:
				ls.Remove(lruset.KeyString(uint64(r.Intn(3)), uint64(r.Intn(4))*4096))
			}
		}

		bf := queueing.NewBuffer[memprotocol.ReadReq]("B", r.Range(1, 5))
		for bf.CanPush() && r.Chance(2, 3) {
			pv := reflect.New(reflect.TypeOf(memprotocol.ReadReq{})).Elem()
			fill(pv, r, 0)
			rr := pv.Interface().(memprotocol.ReadReq)
			rr.Info = nil
			bf.PushTyped(rr)
		}

		pl := queueing.NewPipeline[int](r.Range(1, 4), r.Range(1, 4))
		sink := queueing.NewBuffer[int]("S", 2)

		for k := 0; k < r.Range(0, 8); k++ {
			if pl.CanAccept() {
				pl.AcceptWithDelay(k, r.Intn(3))
			}

			if r.Bool() {
				pl.Tick(&sink)
			}
		}

		for _, pair := range []struct{ orig, fresh any }{{&ls, &lruset.Set{}}, {&bf, &queueing.Buffer[memprotocol.ReadReq]{}}, {&pl, &queueing.Pipeline[int]{}}} {
			raw, err := json.Marshal(pair.orig)
			if err == nil {
				err = json.Unmarshal(raw, pair.fresh)
			}

			if err != nil {
				return kit.Violate("generated-round-trip", "C08:container-json-error", "%T: %v", pair.orig, err), count
			}

			if d := semEq(reflect.ValueOf(pair.orig).Elem(), reflect.ValueOf(pair.fresh).Elem(), fmt.Sprintf("%T", pair.orig)); d != "" {
				return kit.Violate("generated-round-trip", "C08:container-changed["+fmt.Sprintf("%T", pair.orig)+"]", "a %T did not survive its JSON round trip: %s", pair.orig, d), count
			}

			count++
		}
	}

	// events through an engine
	e1 := timing.NewSerialEngine()
	e1.RegisterHandler("H", nopHandler{})

	var evs []timing.Event

	for i := 0; i < n*4; i++ {
		var ev timing.Event

		base := timing.EventBase{ID: r.Uint64(), Time_: timing.VTimeInPicoSec(r.Uint64() >> uint(r.Intn(60))), HandlerID_: "H", Secondary: r.Bool()}
		if r.Chance(1, 5) {
			base.Time_ = 0 // pending for the engine's own current time (a wake-up "now")
		}

		switch i % 4 {
		case 0:
			ev = modeling.TickEvent{EventBase: base}
		case 1:
			ev = modeling.TimerFiredEvent{EventBase: base}
		case 2:
			// an event type of the user's own, registered in pointer form (which
			// timing.RegisterEvent documents as supported)
			ev = &ptrEvent{EventBase: base, Payload: r.Uint64(), Note: fmt.Sprint("n", i)}
		default:
			ev = base
		}

		evs = append(evs, ev)
		e1.Schedule(ev)
		count++
	}

	var b1, b2 bytes.Buffer
	if err := e1.SaveCheckpoint(&b1); err != nil {
		return kit.Violate("generated-round-trip", "C08:engine-save-error", "engine SaveCheckpoint: %v", err), count
	}

	e2 := timing.NewSerialEngine()
	e2.RegisterHandler("H", nopHandler{})

	saved := append([]byte(nil), b1.Bytes()...)
	if err := e2.LoadCheckpoint(&b1); err != nil {
		return kit.Violate("generated-round-trip", "C08:engine-load-error", "engine LoadCheckpoint: %v", err), count
	}

	if err := e2.SaveCheckpoint(&b2); err != nil || !bytes.Equal(saved, b2.Bytes()) {
		return kit.Violate("generated-round-trip", "C08:engine-round-trip-differs", "engine queue with %d generated events: save, load into a fresh engine, save again differs (%v)", len(evs), err), count
	}

	// and the restored engine dispatches events of the same concrete types in the same order
	var t1, t2 []string

	e1.AcceptHook(evTypeHook{&t1})
	e2.AcceptHook(evTypeHook{&t2})
	_ = e1.Run()
	_ = e2.Run()

	if fmt.Sprint(t1) != fmt.Sprint(t2) {
		return kit.Violate("generated-round-trip", "C08:event-changed", "restored engine dispatched different events: %v vs %v", t2, t1), count
	}

	return nil, count
}

type tickNothing struct{}

func (tickNothing) Tick() bool { return false }

type nopHandler struct{}

func (nopHandler) Handle(_ timing.Event) error { return nil }

func genC08(r *kit.Rand, tier kit.Tier) C08Case {
	c := C08Case{Cfg: emem.GenConfig(r, tier, emem.GenOpts{OnlyCaches: -1, NoStub: true, MaxOps: 25}), Seed: r.Uint64(), N: 6}
	c.Cfg.EventCap = 60000
	c.Cut = uint64(r.PickInt(1000, 3000, 7000, 15000, 40000, 100000))

	switch r.Intn(5) {
	case 0:
		c.VM = genSimVM(r, tier)
	case 1:
		c.Net = genSimNet(r)
	}

	if tier == kit.Thorough {
		c.N = 30
	}

	return c
}

func execC08(c C08Case, env *kit.Env) kit.Outcome {
	var out kit.Outcome

	if v, n := generatedRoundTrips(c.Seed, c.N); v != nil {
		out.Violation = v
		return out
	} else {
		out.Probe("generated-values-round-tripped", n)
	}

	// states reached by a workload
	u := C06Case{Cfg: c.Cfg, VM: c.VM, Net: c.Net}
	a := u.build(env, true)
	a.guarded(func() { _ = a.eng.RunUntil(timing.VTimeInPicoSec(c.Cut)) })

	if a.capHit {
		a.close()
		out.Inconclusive = "event-cap"

		return out
	}

	ckpt := filepath.Join(shmDir(env), "c08.akitackpt")
	if err := a.sim.SaveCheckpoint(ckpt, buildID); err != nil {
		a.close()
		out.Violation = kit.Violate("checkpoint", "C08:save-failed", "SaveCheckpoint at t=%d: %v", c.Cut, err)

		return out
	}

	b := u.build(env, false)

	defer func() {
		a.close()
		b.close()
		_ = os.Remove(ckpt)
	}()

	if err := b.sim.LoadCheckpoint(ckpt, buildID); err != nil {
		out.Violation = kit.Violate("checkpoint", "C08:load-failed", "LoadCheckpoint into the rebuilt simulation: %v", err)
		return out
	}

	// component states
	bComps := map[string]any{}
	for _, cp := range b.sim.Components() {
		bComps[cp.Name()] = cp
	}

	states, busy := 0, 0

	for _, cp := range a.sim.Components() {
		av := reflect.ValueOf(cp)
		bv := reflect.ValueOf(bComps[cp.Name()])

		if av.Kind() != reflect.Pointer || av.Elem().Kind() != reflect.Struct {
			continue
		}

		as := av.Elem().FieldByName("State")
		if !as.IsValid() {
			continue
		}

		states++

		if d := semEq(as, bv.Elem().FieldByName("State"), cp.Name()+".State"); d != "" {
			out.Violation = kit.Violate("state-round-trip", "C08:state-changed["+fmt.Sprintf("%T", as.Interface())+"]", "component %s at t=%d: State did not survive save + load into the rebuilt component: %s", cp.Name(), c.Cut, d)
			return out
		}
	}

	// port buffers, drained on both sides
	aPorts, bPorts := map[string]messaging.Port{}, map[string]messaging.Port{}

	for _, p := range a.sim.Ports() {
		if mp, ok := p.(messaging.Port); ok {
			aPorts[mp.Name()] = mp
		}
	}

	for _, p := range b.sim.Ports() {
		if mp, ok := p.(messaging.Port); ok {
			bPorts[mp.Name()] = mp
		}
	}

	names := make([]string, 0, len(aPorts))
	for n := range aPorts {
		names = append(names, n)
	}

	sort.Strings(names)

	for _, n := range names {
		pa, pb := aPorts[n], bPorts[n]
		if pb == nil {
			out.Violation = kit.Violate("state-round-trip", "C08:port-missing-in-rebuilt-simulation", "port %s exists in the saved simulation and not in the rebuilt one", n)
			return out
		}

		for _, get := range []func(p messaging.Port) messaging.Msg{
			func(p messaging.Port) messaging.Msg { return p.RetrieveIncoming() },
			func(p messaging.Port) messaging.Msg { return p.RetrieveOutgoing() },
		} {
			for {
				ma, mb := get(pa), get(pb)
				if ma == nil && mb == nil {
					break
				}

				busy++

				if (ma == nil) != (mb == nil) {
					out.Violation = kit.Violate("state-round-trip", "C08:port-buffer-length", "port %s at t=%d holds a different number of messages after the round trip", n, c.Cut)
					return out
				}

				if d := semEq(reflect.ValueOf(ma), reflect.ValueOf(mb), fmt.Sprintf("%s:%T", n, ma)); d != "" {
					out.Violation = kit.Violate("state-round-trip", "C08:buffered-message-changed["+fmt.Sprintf("%T", ma)+"]", "message buffered in %s at t=%d changed across the round trip: %s", n, c.Cut, d)
					return out
				}
			}
		}
	}

	out.Fault("crash-restart(checkpoint-cut)", 1)
	out.Probe("component-states-compared", states)
	out.Probe("buffered-messages-compared", busy)
	out.Events = uint64(a.events)
	out.SimTimePs = uint64(a.eng.CurrentTime())
	desc := emem.Describe(&c.Cfg)

	switch {
	case c.VM != nil:
		desc = fmt.Sprintf("vm-stack tlbs=%d mmucache=%v gmmu=%v reqs=%d", len(c.VM.TLBs), c.VM.MMUCache, c.VM.GMMU, len(c.VM.Reqs))
		out.Probe("assembly:vm-stack", 1)
	case c.Net != nil:
		desc = enoc.Describe(c.Net)
		out.Probe("assembly:network", 1)
	default:
		out.Probe("assembly:memory-hierarchy", 1)
	}

	out.Shape = fmt.Sprintf("%s|%d|%d|%d", desc, c.Cut, busy, c.Seed%1000)
	out.NonTrivial = busy > 0
	out.Sample = map[string]any{"assembly": desc, "cut": c.Cut, "states": states, "buffered_messages": busy, "generated_per_type": c.N}

	return out
}

// ptrEvent is registered as *ptrEvent.
type ptrEvent struct {
	timing.EventBase
	Payload uint64 `json:"payload"`
	Note    string `json:"note"`
}

func init() { timing.RegisterEvent(&ptrEvent{}) }

type evTypeHook struct{ log *[]string }

func (h evTypeHook) Func(ctx hookCtx) {
	if ctx.Pos == timing.HookPosBeforeEvent {
		*h.log = append(*h.log, fmt.Sprintf("%T%+v", ctx.Item, ctx.Item))
	}
}

func init() {
	kit.Register(kit.Spec[C08Case]{
		ID: "C08", Level: "exploration",
		Rule: "(a) states reached by workloads: a random memory hierarchy (or, in two runs out of five, a translation stack or a switched network) on a real simulation.Simulation is run to a seeded cut, saved and loaded into a rebuilt simulation; every component's State (by reflection, including the buffers, pipelines and directory structures embedded in it) and every message buffered in every port (drained on both sides) must be equal with the same concrete types; " +
			"(b) generated values: 6 (thorough 30) seeded values of each of the 12 library message types (mem, mem.control, vm, datamover, packetization; nil vs empty slices, zero values, extreme integers, hostile strings) go through a port's incoming and outgoing buffers and a port checkpoint into a fresh port, seeded LRU sets (also between an eviction and the next visit), bounded buffers and pipelines with dwelling items go through their JSON form, and seeded events of the 3 registered library event types and of a harness type registered in pointer form go through an engine checkpoint into a fresh engine, which must save identically and dispatch the same events; " +
			"equality = reflect.DeepEqual except that nil and empty slices/maps are equal; distinct = hash of (assembly, cut, buffered messages, seed); non-trivial = at least one buffered message compared",
		Assumptions: []string{"nil and empty slices/maps are treated as equal (omitempty fields do not keep the distinction and no component depends on it)", "the generated half has no schedule in it; it shares the harness because the checkpoint API of ports and engines is the only public seam", "two runs in five use a translation stack or a switched network instead of the memory hierarchy (same restrictions as in C06)"},
		Real:        []string{"internal/codec", "messaging msg codec + port checkpoint", "timing event codec + engine checkpoint", "modeling.Component checkpoint", "queueing buffer/pipeline JSON", "cache directory / MSHR state"},
		Stubs:       []string{"checkpointable scripted requesters"},
		FaultKinds:  []string{"crash-restart(checkpoint-cut)"},
		Quick:       kit.Budget{Runs: 1500, WallS: 100, CaseS: 200},
		Thorough:    kit.Budget{Runs: 200000, WallS: 1500, CaseS: 400},
		Gen:         genC08, Exec: execC08,
		Shrink: func(c C08Case) []C08Case {
			var out []C08Case
			if c.VM != nil || c.Net != nil {
				return out
			}

			for _, q := range emem.ShrinkConfig(c.Cfg) {
				out = append(out, C08Case{Cfg: q, Cut: c.Cut, Seed: c.Seed, N: c.N})
			}

			return out
		},
	})
}
