package eckpt

import (
	"archive/tar"
	"bytes"
	"compress/gzip"
	"fmt"
	"io"
	"sort"
)

// readTar parses a checkpoint archive (gzip + tar) into name -> payload.
func readTar(b []byte) (map[string][]byte, error) {
	zr, err := gzip.NewReader(bytes.NewReader(b))
	if err != nil {
		return nil, err
	}

	tr := tar.NewReader(zr)
	out := map[string][]byte{}

	for {
		h, err := tr.Next()
		if err == io.EOF {
			return out, nil
		}

		if err != nil {
			return nil, err
		}

		data, err := io.ReadAll(tr)
		if err != nil {
			return nil, err
		}

		out[h.Name] = data
	}
}

// archiveDiff names the first entity whose payload differs between two archives.
func archiveDiff(a, b []byte) string {
	ma, ea := readTar(a)
	mb, eb := readTar(b)

	if ea != nil || eb != nil {
		return fmt.Sprintf("archives differ (unreadable: %v / %v)", ea, eb)
	}

	var names []string
	for n := range ma {
		names = append(names, n)
	}

	for n := range mb {
		if _, ok := ma[n]; !ok {
			names = append(names, n)
		}
	}

	sort.Strings(names)

	for _, n := range names {
		if !bytes.Equal(ma[n], mb[n]) {
			x, y := string(ma[n]), string(mb[n])
			i := 0

			for i < len(x) && i < len(y) && x[i] == y[i] {
				i++
			}

			lo := max(0, i-60)

			return fmt.Sprintf("entity %s differs near byte %d: ...%s... vs ...%s...", n, i, clip(x[lo:], 160), clip(y[lo:], 160))
		}
	}

	return "archives differ only in container bytes"
}

func clip(s string, n int) string {
	if len(s) > n {
		return s[:n]
	}

	return s
}
