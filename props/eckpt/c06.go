package eckpt

import (
	"bytes"
	"fmt"
	"github.com/sarchlab/akita/v5/mem/vm"
	"os"
	"path/filepath"

	"github.com/sarchlab/akita/v5/hooking"
	"github.com/sarchlab/akita/v5/messaging"
	"github.com/sarchlab/akita/v5/simulation"
	"github.com/sarchlab/akita/v5/timing"
	"github.com/sarchlab/akita/v5/tracing"

	"verif/props/emem"
	"verif/props/enoc"
	"verif/props/evm"
	"verif/props/tracelog"
	"verif/sim/kit"
)

// C06Case is a hierarchy configuration plus the choice of cut points.
type C06Case struct {
	Cfg     emem.Config `json:"cfg"`
	VM      *evm.Cfg    `json:"vm,omitempty"`   // a translation stack instead of the memory hierarchy
	Net     *enoc.Net   `json:"net,omitempty"`  // a switched network instead
	Cuts    []uint64    `json:"cuts,omitempty"` // explicit cut times (replay); empty = chosen from the reference run
	MaxCuts int         `json:"max_cuts"`
	Pick    uint64      `json:"pick"`
}

const buildID = "verif-build"

type simRun struct {
	sim    *simulation.Simulation
	eng    *timing.SerialEngine
	asm    *emem.Asm
	trace  []string
	times  []uint64
	events int
	cap    int
	capHit bool
	path   string
}

type traceHook struct{ r *simRun }

type capStop struct{}

func (h traceHook) Func(ctx hooking.HookCtx) {
	if ctx.Pos != timing.HookPosBeforeEvent {
		return
	}

	e := ctx.Item.(timing.Event)
	h.r.events++

	if h.r.events > h.r.cap {
		h.r.capHit = true
		panic(capStop{})
	}

	h.r.trace = append(h.r.trace, fmt.Sprintf("%d|%s|%T|%v", e.Time(), e.HandlerID(), e, e))
	h.r.times = append(h.r.times, uint64(e.Time()))
}

var simSeq int

// PTOp is one operation on a stand-alone page table registered with the
// simulation (it takes part in the checkpoint like any other resource).
type PTOp struct {
	Op    string `json:"op"` // insert find remove update
	PID   uint32 `json:"pid"`
	VPage uint64 `json:"vpage"`
	PPage uint64 `json:"ppage,omitempty"`
}

// extraPT, when non-nil, makes newSim register a page table; a fresh (kicked)
// run applies the operations, a rebuilt run registers it empty.
var extraPT []PTOp

// newSim builds the simulation described by cfg on a real simulation.Simulation.
// kick starts the requesters (a fresh run); a run that will load a checkpoint
// must not be kicked (the engine queue has to be empty for the load).
func newSim(cfg *emem.Config, env *kit.Env, kick bool) *simRun {
	timing.ResetIDGenerator()
	timing.UseSequentialIDGenerator()
	tracing.VerifResetRegistries() // many simulations share this process; the side tables are process-global

	simSeq++
	r := &simRun{cap: cfg.EventCap, path: filepath.Join(shmDir(env), fmt.Sprintf("sim%d", simSeq))}
	r.sim = simulation.MakeBuilder().WithoutMonitoring().WithOutputFileName(r.path).Build()
	r.eng = r.sim.GetEngine().(*timing.SerialEngine)

	w := emem.NewWorld()

	var reqs []interface{ TickLater() }

	w.MakeReq = func(i int, a *emem.Asm, tops []messaging.Port, il uint64) messaging.Port {
		p := makeCkReq(i, a, tops, il, cfg.Reqs[i].FreqHz)
		reqs = append(reqs, p.Component().(interface{ TickLater() }))

		return p
	}

	r.asm = emem.BuildOn(r.sim, cfg, w)
	r.eng.AcceptHook(traceHook{r})

	if extraPT != nil {
		pt := vm.MakePageTableBuilder().WithSimulation(r.sim).WithLog2PageSize(12).Build("PageTable")

		if kick {
			for _, o := range extraPT {
				va := o.VPage << 12

				switch o.Op {
				case "insert":
					if _, found := pt.Find(vm.PID(o.PID), va); !found {
						pt.Insert(vm.Page{PID: vm.PID(o.PID), VAddr: va, PAddr: o.PPage << 12, PageSize: 4096, Valid: true, DeviceID: 1})
					}
				case "find":
					pt.Find(vm.PID(o.PID), va)
				case "remove":
					if _, found := pt.Find(vm.PID(o.PID), va); found {
						pt.Remove(vm.PID(o.PID), va)
					}
				case "update":
					if pg, found := pt.Find(vm.PID(o.PID), va); found {
						pg.PAddr = o.PPage << 12
						pt.Update(pg)
					}
				}
			}
		}
	}

	if kick {
		for _, q := range reqs {
			q.TickLater()
		}
	}

	return r
}

// shmDir returns a memory-backed scratch directory for the SQLite file every
// simulation.Simulation creates (its fsyncs dominate the run time on disk).
func shmDir(env *kit.Env) string {
	d := filepath.Join("/dev/shm", "verif-"+filepath.Base(env.Scratch))
	if err := os.MkdirAll(d, 0o755); err != nil {
		return env.Scratch
	}

	return d
}

func (r *simRun) close() {
	r.sim.Terminate()
	_ = os.Remove(r.path + ".sqlite3")
}

// guarded runs f and converts the event-cap stop into a flag.
func (r *simRun) guarded(f func()) {
	defer func() {
		if x := recover(); x != nil {
			if _, ok := x.(capStop); ok {
				return
			}

			panic(x)
		}
	}()

	f()
}

func (r *simRun) archive(env *kit.Env, tag string) ([]byte, error) {
	p := filepath.Join(env.Scratch, fmt.Sprintf("ck-%s-%d.akitackpt", tag, simSeq))
	if err := r.sim.SaveCheckpoint(p, buildID); err != nil {
		return nil, err
	}

	b, err := os.ReadFile(p)
	_ = os.Remove(p)

	return b, err
}

func firstTraceDiff(a, b []string) string {
	n := min(len(a), len(b))
	for i := 0; i < n; i++ {
		if a[i] != b[i] {
			return fmt.Sprintf("event #%d: %q vs reference %q", i, a[i], b[i])
		}
	}

	return fmt.Sprintf("%d events vs reference %d", len(a), len(b))
}

// build constructs the simulation the case describes.
func (c *C06Case) build(env *kit.Env, kick bool) *simRun {
	switch {
	case c.VM != nil:
		return newSimVM(c.VM, env, kick)
	case c.Net != nil:
		return newSimNet(c.Net, env, kick)
	}

	return newSim(&c.Cfg, env, kick)
}

// genSimVM draws a translation stack that can run on a real simulation with
// checkpointable requesters (no address translator, no control script).
func genSimVM(r *kit.Rand, tier kit.Tier) *evm.Cfg {
	v := evm.Gen(r, tier, r.Chance(1, 3))
	v.UseAT, v.Steps = false, nil
	v.EventCap = 60000

	for i := range v.Reqs {
		if len(v.Reqs[i].Ops) > 25 {
			v.Reqs[i].Ops = v.Reqs[i].Ops[:25]
		}
	}

	if v.MMUCache && len(v.TLBs) == 0 {
		v.Reqs = v.Reqs[:1]
	}

	v.DefaultPT = r.Chance(1, 2)

	return &v
}

// genSimNet draws a switched network without harness events (send times, stalls).
func genSimNet(r *kit.Rand) *enoc.Net {
	n := enoc.GenNet(r, kit.Quick)
	n.EventCap = 60000

	for i := range n.Devs {
		n.Devs[i].Stalls = nil
	}

	for i := range n.Msgs {
		n.Msgs[i].At = 0
	}

	if len(n.Msgs) > 40 {
		n.Msgs = n.Msgs[:40]
	}

	return &n
}

func genC06(r *kit.Rand, tier kit.Tier) C06Case {
	c := C06Case{MaxCuts: 8, Pick: r.Uint64()}

	if tier == kit.Thorough {
		c.MaxCuts = r.PickInt(12, 40, 400)
	}

	switch r.Intn(5) {
	case 0:
		c.VM = genSimVM(r, tier)
		return c
	case 1:
		c.Net = genSimNet(r)
		return c
	}

	c.Cfg = emem.GenConfig(r, tier, emem.GenOpts{OnlyCaches: -1, NoStub: true, MaxOps: 25})
	c.Cfg.EventCap = 60000

	return c
}

// cutBeforeStart stands for "save before the engine has run".
const cutBeforeStart = ^uint64(0)

func execC06(c C06Case, env *kit.Env) kit.Outcome {
	var out kit.Outcome

	ref := c.build(env, true)
	ref.guarded(func() { _ = ref.eng.Run() })

	if ref.capHit {
		ref.close()
		out.Inconclusive = "event-cap"

		return out
	}

	refFinal, err := ref.archive(env, "ref")
	ref.close()

	if err != nil {
		out.Violation = kit.Violate("checkpoint", "C06:save-failed", "SaveCheckpoint of the finished reference run: %v", err)
		return out
	}

	// distinct event times are the candidate cut points
	var times []uint64
	for i, t := range ref.times {
		if i == 0 || t != ref.times[i-1] {
			times = append(times, t)
		}
	}

	cuts := c.Cuts
	if len(cuts) == 0 {
		if len(times) <= c.MaxCuts {
			cuts = times
		} else {
			rng := kit.NewRand(c.Pick)
			seen := map[uint64]bool{}
			cuts = append(cuts, times[0], times[len(times)-1])
			seen[times[0]], seen[times[len(times)-1]] = true, true

			for len(cuts) < c.MaxCuts {
				t := times[rng.Intn(len(times))]
				if !seen[t] {
					seen[t] = true
					cuts = append(cuts, t)
				}
			}
		}
	}

	// besides the time boundaries: a checkpoint of the simulation as built, before
	// the engine has run at all (the first events are pending for the engine's own
	// current time)
	if len(c.Cuts) == 0 {
		cuts = append([]uint64{cutBeforeStart}, cuts...)
	}

	inflightCuts := 0

	for _, t := range cuts {
		// suffix of the reference trace after t
		k := 0
		for t != cutBeforeStart && k < len(ref.times) && ref.times[k] <= t {
			k++
		}

		if k < len(ref.times) {
			inflightCuts++
		}

		a := c.build(env, true)
		if t != cutBeforeStart {
			a.guarded(func() { _ = a.eng.RunUntil(timing.VTimeInPicoSec(t)) })
		}

		ckpt := filepath.Join(env.Scratch, "cut.akitackpt")
		if err := a.sim.SaveCheckpoint(ckpt, buildID); err != nil {
			a.close()
			out.Violation = kit.Violate("checkpoint", "C06:save-failed", "SaveCheckpoint at t=%d: %v", t, err)

			return out
		}

		a.guarded(func() { _ = a.eng.Run() })
		aFinal, _ := a.archive(env, "a")
		a.close()

		if d := len(a.trace) != len(ref.trace) || !equalStrings(a.trace, ref.trace); d {
			out.Violation = kit.Violate("save-does-not-perturb", "C06:saving-changed-the-run", "run interrupted by RunUntil(%d) + SaveCheckpoint and continued differs from the uninterrupted run: %s", t, firstTraceDiff(a.trace, ref.trace))
			return out
		}

		if !bytes.Equal(aFinal, refFinal) {
			out.Violation = kit.Violate("save-does-not-perturb", "C06:saving-changed-final-state", "final state after RunUntil(%d) + SaveCheckpoint + Run differs from the uninterrupted run: %s", t, archiveDiff(aFinal, refFinal))
			return out
		}

		b := c.build(env, false)
		if err := b.sim.LoadCheckpoint(ckpt, buildID); err != nil {
			b.close()
			out.Violation = kit.Violate("checkpoint", "C06:load-failed", "LoadCheckpoint of the archive saved at t=%d into the rebuilt simulation: %v", t, err)

			return out
		}

		b.guarded(func() { _ = b.eng.Run() })
		bFinal, _ := b.archive(env, "b")
		b.close()
		_ = os.Remove(ckpt)

		if !equalStrings(b.trace, ref.trace[k:]) {
			out.Violation = kit.Violate("restore-invisible", "C06:resumed-trace-differs", "cut at t=%d: after restore the handled events differ from the uninterrupted run: %s", t, firstTraceDiff(b.trace, ref.trace[k:]))
			return out
		}

		if !bytes.Equal(bFinal, refFinal) {
			if d := os.Getenv("VERIF_C06_DUMP"); d != "" {
				_ = os.WriteFile(filepath.Join(d, "ref.akitackpt"), refFinal, 0o644)
				_ = os.WriteFile(filepath.Join(d, "restored.akitackpt"), bFinal, 0o644)
			}

			out.Violation = kit.Violate("restore-invisible", "C06:resumed-final-state-differs", "cut at t=%d: final state after restore differs from the uninterrupted run: %s", t, archiveDiff(bFinal, refFinal))
			return out
		}
	}

	out.Events = uint64(len(ref.trace) * (1 + 2*len(cuts)))

	if len(ref.times) > 0 {
		out.SimTimePs = ref.times[len(ref.times)-1]
	}

	out.Fault("crash-restart(checkpoint-cut)", len(cuts))
	out.Probe("cuts-with-events-still-pending", inflightCuts)
	out.Probe("distinct-event-times-in-reference", len(times))
	out.Probe("all-event-times-cut", btoi(len(cuts) == len(times)))
	desc := emem.Describe(&c.Cfg)

	switch {
	case c.VM != nil:
		desc = fmt.Sprintf("vm-stack tlbs=%d mmucache=%v gmmu=%v auto=%v reqs=%d", len(c.VM.TLBs), c.VM.MMUCache, c.VM.GMMU, c.VM.AutoAlloc, len(c.VM.Reqs))
		out.Probe("assembly:vm-stack", 1)
	case c.Net != nil:
		desc = enoc.Describe(c.Net)
		out.Probe("assembly:network", 1)
	default:
		out.Probe("assembly:memory-hierarchy", 1)
	}

	out.Shape = fmt.Sprintf("%s|%d|%v", desc, len(ref.trace), cuts)
	out.NonTrivial = inflightCuts > 0
	out.Sample = map[string]any{"assembly": desc, "events": len(ref.trace), "cuts": cuts}

	return out
}

func btoi(b bool) int {
	if b {
		return 1
	}

	return 0
}

func equalStrings(a, b []string) bool {
	if len(a) != len(b) {
		return false
	}

	for i := range a {
		if a[i] != b[i] {
			return false
		}
	}

	return true
}

func init() {
	kit.Register(kit.Spec[C06Case]{
		ID: "C06", Level: "fault_enumeration",
		Rule: "three out of five runs: random memory hierarchies (E-mem generator: caches of all four kinds, ROB, ideal / banked / DRAM controllers, interleaved lowers, mixed clocks) built on a real simulation.Simulation with checkpointable scripted requesters (tick-counted stalls, no harness events); one in five: a translation stack (TLB levels, MMU cache, GMMU, MMU, registered page table) with checkpointable translation requesters; one in five: a switched network (generic, mesh, PCIe, NVLink connectors) with checkpointable devices; " +
			"the reference run records every distinct event time; for each chosen cut t (quick: first, last and up to 8 sampled; thorough: up to 400, all when fewer) simulation A runs to t, saves, is continued (must still equal the reference) and is thrown away; simulation B is rebuilt, loads the archive and runs: " +
			"its handled-event trace (time, handler, type, payload incl. event ID) must equal the reference suffix and its final archive must be byte-equal to the reference's; distinct = hash of (assembly, events, cuts); non-trivial = at least one cut with events still pending",
		Assumptions: []string{"tracing off (no StartTracing), as documented for checkpoints", "final state is compared through the canonical archive (C07 checks that archives are canonical)", "VM stacks run without address translator and control script, networks without send times and receiver stalls (those use harness events that are not checkpointable); the data mover is not part of this generator"},
		Real:        []string{"simulation.Simulation (SaveCheckpoint/LoadCheckpoint, archive)", "timing.SerialEngine + event codec", "timing ID generator checkpoint", "modeling.Component checkpoint", "messaging.Port checkpoint", "mem.Storage checkpoint", "caches, ROB, memory controllers, direct connections", "TLB, MMU cache, GMMU, MMU, page table", "switches, endpoints"},
		Stubs:       []string{"checkpointable scripted requesters (modeling.Component with harness middleware)"},
		FaultKinds:  []string{"crash-restart(checkpoint-cut)"},
		Quick:       kit.Budget{Runs: 600, WallS: 110, CaseS: 200},
		Thorough:    kit.Budget{Runs: 100000, WallS: 1700, CaseS: 600},
		Gen:         genC06, Exec: execC06,
		Shrink: func(c C06Case) []C06Case {
			var out []C06Case

			switch {
			case c.VM != nil:
				for _, q := range evm.ShrinkCfg(*c.VM) {
					q := q
					if q.UseAT || len(q.Steps) > 0 {
						continue
					}

					out = append(out, C06Case{VM: &q, MaxCuts: c.MaxCuts, Pick: c.Pick})
				}
			case c.Net != nil:
				for _, q := range enoc.ShrinkNet(*c.Net) {
					q := q
					out = append(out, C06Case{Net: &q, MaxCuts: c.MaxCuts, Pick: c.Pick})
				}
			default:
				for _, q := range emem.ShrinkConfig(c.Cfg) {
					out = append(out, C06Case{Cfg: q, MaxCuts: c.MaxCuts, Pick: c.Pick})
				}
			}

			return out
		},
	})
}

// TraceSim runs a configuration on a real simulation.Simulation with a trace
// log attached and returns the log plus the final canonical archive (C03).
func TraceSim(cfg *emem.Config, env *kit.Env) ([]string, []byte, bool) {
	s := newSim(cfg, env, true)
	l := &tracelog.Log{}
	l.Attach(s.eng, s.asm.Ports)
	s.guarded(func() { _ = s.eng.Run() })
	arch, _ := s.archive(env, "det")
	s.close()

	return l.Lines, arch, s.capHit
}

// ArchiveDiff exposes archiveDiff.
func ArchiveDiff(a, b []byte) string { return archiveDiff(a, b) }
