// Package eckpt checks the checkpoint properties (C06, C07, C08) on real
// simulation.Simulation instances: every peer of the library components is
// itself a checkpointable component, so that throwing a whole simulation away
// and loading the archive into a rebuilt one is a faithful crash + restart.
package eckpt

import (
	"fmt"
	"hash/fnv"

	"github.com/sarchlab/akita/v5/mem/memprotocol"
	"github.com/sarchlab/akita/v5/mem/vm"
	"github.com/sarchlab/akita/v5/messaging"
	"github.com/sarchlab/akita/v5/modeling"
	"github.com/sarchlab/akita/v5/timing"

	"verif/props/emem"
)

// ckSpec is the immutable script of a checkpointable requester (primitive
// slices only, as Spec validation demands).
type ckSpec struct {
	Addr        []uint64 `json:"addr"`
	Size        []int    `json:"size"`
	Write       []bool   `json:"write"`
	Mask        []int    `json:"mask"`
	MaxOut      int      `json:"max_out"`
	StallAtTick []int    `json:"stall_at_tick"`
	StallLen    []int    `json:"stall_len"`
	Dst         []string `json:"dst"`
	Interleave  uint64   `json:"interleave"`
	Index       int      `json:"index"`
}

type ckOut struct {
	ID  uint64 `json:"id"`
	Ord int    `json:"ord"`
}

// ckState is everything the requester remembers.
type ckState struct {
	Next      int     `json:"next"`
	Done      int     `json:"done"`
	Out       []ckOut `json:"out"`
	StallLeft int     `json:"stall_left"`
	NextStall int     `json:"next_stall"`
	Ticks     int     `json:"ticks"`
	RspHash   uint64  `json:"rsp_hash"`
	Problem   string  `json:"problem"`
	// Pending is seeded by the builder with one entry per scripted request and
	// shrinks as requests complete: a restore must replace it, not merge into
	// the rebuilt component's initial value.
	Pending map[string]int `json:"pending"`
}

type ckReq = modeling.Component[ckSpec, ckState, modeling.None]

type ckMW struct {
	comp *ckReq
}

func (m *ckMW) port() messaging.Port { return m.comp.GetPortByName("Mem") }

func (m *ckMW) conflicts(k int) bool {
	s := m.comp.Spec()
	lo, hi := s.Addr[k], s.Addr[k]+uint64(s.Size[k])

	for _, o := range m.comp.State.Out {
		olo, ohi := s.Addr[o.Ord], s.Addr[o.Ord]+uint64(s.Size[o.Ord])
		if lo < ohi && olo < hi {
			return true
		}
	}

	return false
}

func mix(h uint64, vals ...uint64) uint64 {
	f := fnv.New64a()

	var b [8]byte

	for _, v := range append([]uint64{h}, vals...) {
		for i := 0; i < 8; i++ {
			b[i] = byte(v >> (8 * i))
		}

		_, _ = f.Write(b[:])
	}

	return f.Sum64()
}

// Tick implements modeling.Middleware.
func (m *ckMW) Tick() bool {
	st := &m.comp.State
	spec := m.comp.Spec()
	st.Ticks++

	if st.NextStall < len(spec.StallAtTick) && st.Ticks >= spec.StallAtTick[st.NextStall] {
		st.StallLeft = spec.StallLen[st.NextStall]
		st.NextStall++
	}

	if st.StallLeft > 0 {
		st.StallLeft--
		return true
	}

	progress := false

	for {
		msg := m.port().RetrieveIncoming()
		if msg == nil {
			break
		}

		progress = true
		found := -1

		for i, o := range st.Out {
			if o.ID == msg.Meta().RspTo {
				found = i
				break
			}
		}

		if found < 0 {
			st.Problem = fmt.Sprintf("response RspTo=%d matches no outstanding request", msg.Meta().RspTo)
			continue
		}

		ord := st.Out[found].Ord
		st.Out = append(st.Out[:found], st.Out[found+1:]...)
		st.Done++
		delete(st.Pending, fmt.Sprintf("op%d", ord))
		st.RspHash = mix(st.RspHash, uint64(ord), uint64(len(st.Pending)))

		if d, ok := msg.(memprotocol.DataReadyRsp); ok {
			for _, b := range d.Data {
				st.RspHash = mix(st.RspHash, uint64(b))
			}
		}
	}

	for st.Next < len(spec.Addr) && len(st.Out) < spec.MaxOut {
		k := st.Next
		if m.conflicts(k) || !m.port().CanSend() {
			break
		}

		dst := spec.Dst[0]
		if len(spec.Dst) > 1 {
			dst = spec.Dst[spec.Addr[k]/spec.Interleave%uint64(len(spec.Dst))]
		}

		id := timing.GetIDGenerator().Generate()
		meta := messaging.MsgMeta{ID: id, Src: m.port().AsRemote(), Dst: messaging.RemotePort(dst)}

		if spec.Write[k] {
			data := make([]byte, spec.Size[k])
			for i := range data {
				data[i] = byte(1 + (spec.Index*131+k*17+i*7)%251)
			}

			var mask []bool

			if spec.Mask[k] != 0 {
				mask = make([]bool, len(data))
				x := uint32(spec.Mask[k]) * 2654435761

				for i := range mask {
					x ^= x << 13
					x ^= x >> 17
					x ^= x << 5
					mask[i] = x&3 != 0
				}
			}

			meta.TrafficBytes = len(data) + 12
			meta.TrafficClass = "memprotocol.WriteReq"
			m.port().Send(memprotocol.WriteReq{MsgMeta: meta, Address: spec.Addr[k], Data: data, DirtyMask: mask, PID: vm.PID(0)})
		} else {
			meta.TrafficBytes = 12
			meta.TrafficClass = "memprotocol.ReadReq"
			m.port().Send(memprotocol.ReadReq{MsgMeta: meta, Address: spec.Addr[k], AccessByteSize: uint64(spec.Size[k])})
		}

		st.Out = append(st.Out, ckOut{ID: id, Ord: k})
		st.Next++
		progress = true
	}

	return progress
}

// makeCkReq builds checkpointable requester i of the configuration. Each
// requester works in its own address region so that only its own outstanding
// requests can conflict with a new one.
func makeCkReq(i int, a *emem.Asm, tops []messaging.Port, il uint64, freqHz uint64) messaging.Port {
	rc := a.Cfg.Reqs[i]
	spec := ckSpec{MaxOut: rc.MaxOutstanding, Interleave: il, Index: i}

	for _, op := range rc.Ops {
		spec.Addr = append(spec.Addr, op.Addr%16384+uint64(i)*16384)
		spec.Size = append(spec.Size, op.Size)
		spec.Write = append(spec.Write, op.Write)
		spec.Mask = append(spec.Mask, op.Mask)
	}

	for _, s := range rc.Stalls {
		spec.StallAtTick = append(spec.StallAtTick, int(s[0]/1000)+1)
		spec.StallLen = append(spec.StallLen, int((s[1]-s[0])/1000)%40+1)
	}

	for _, t := range tops {
		spec.Dst = append(spec.Dst, string(t.AsRemote()))
	}

	name := fmt.Sprintf("Req%d", i)
	comp := modeling.NewBuilder[ckSpec, ckState, modeling.None]().
		WithEngine(a.Eng).WithFreq(timing.Freq(freqHz)).WithSpec(spec).Build(name)
	comp.State.Pending = map[string]int{}
	for k := range spec.Addr {
		comp.State.Pending[fmt.Sprintf("op%d", k)] = k
	}

	comp.AddMiddleware(&ckMW{comp: comp})
	comp.DeclarePort("Mem", memprotocol.Requester)
	a.Reg.RegisterComponent(comp)
	p := a.NewPort(comp, "Mem", rc.PortBuf)

	return p
}
