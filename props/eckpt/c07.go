package eckpt

import (
	"archive/tar"
	"bytes"
	"compress/gzip"
	"encoding/base64"
	"encoding/binary"
	"encoding/json"
	"fmt"
	"io"
	"os"
	"os/exec"
	"path/filepath"
	"sort"
	"strings"
	"time"

	"github.com/sarchlab/akita/v5/timing"

	"verif/props/emem"
	"verif/props/enoc"
	"verif/props/evm"
	"verif/sim/kit"
)

// C07Case: one configuration, one cut, and the seeds of the corruptions to try.
type C07Case struct {
	Cfg     emem.Config  `json:"cfg"`
	Cut     uint64       `json:"cut"`
	Corrupt []Corruption `json:"corrupt"`
	OnlyMut string       `json:"only_mut,omitempty"` // replay: restrict the mismatch catalogue to this entry
	PT      []PTOp       `json:"pt,omitempty"`       // operations on a registered stand-alone page table
	VM      *evm.Cfg     `json:"vm,omitempty"`       // a translation stack instead of the memory hierarchy
	Net     *enoc.Net    `json:"net,omitempty"`      // a switched network instead
}

// Corruption is one storage fault applied to the archive bytes / entries.
type Corruption struct {
	Kind string `json:"kind"`
	A    uint64 `json:"a"`
	B    uint64 `json:"b"`
}

type tarEntry struct {
	name string
	data []byte
}

func unpack(b []byte) ([]tarEntry, error) {
	zr, err := gzip.NewReader(bytes.NewReader(b))
	if err != nil {
		return nil, err
	}

	tr := tar.NewReader(zr)

	var out []tarEntry

	for {
		h, err := tr.Next()
		if err == io.EOF {
			return out, nil
		}

		if err != nil {
			return nil, err
		}

		d, err := io.ReadAll(tr)
		if err != nil {
			return nil, err
		}

		out = append(out, tarEntry{h.Name, d})
	}
}

func pack(entries []tarEntry) []byte {
	var buf bytes.Buffer

	gz := gzip.NewWriter(&buf)
	gz.ModTime = time.Unix(0, 0)
	tw := tar.NewWriter(gz)

	for _, e := range entries {
		_ = tw.WriteHeader(&tar.Header{Name: e.name, Mode: 0o600, Size: int64(len(e.data)), ModTime: time.Unix(0, 0)})
		_, _ = tw.Write(e.data)
	}

	_ = tw.Close()
	_ = gz.Close()

	return buf.Bytes()
}

// mismatch is one single-point mutation of the rebuilt configuration.
type mismatch struct {
	name string
	cfg  emem.Config
}

func cloneCfg(c emem.Config) emem.Config {
	b, _ := json.Marshal(c)

	var out emem.Config
	_ = json.Unmarshal(b, &out)

	return out
}

func mismatchCatalogue(c emem.Config) []mismatch {
	var out []mismatch

	add := func(name string, f func(q *emem.Config)) {
		q := cloneCfg(c)
		f(&q)
		out = append(out, mismatch{name, q})
	}

	add("entity-extra:requester", func(q *emem.Config) { q.Reqs = append(q.Reqs, q.Reqs[0]) })

	if len(c.Reqs) > 1 {
		add("entity-missing:requester", func(q *emem.Config) { q.Reqs = q.Reqs[:len(q.Reqs)-1] })
	}

	add("spec:requester-max-outstanding", func(q *emem.Config) { q.Reqs[0].MaxOutstanding++ })
	add("spec:requester-script", func(q *emem.Config) { q.Reqs[0].Ops[0].Addr += 4 })
	add("port-capacity:requester", func(q *emem.Config) { q.Reqs[0].PortBuf++ })
	add("spec:connection-frequency", func(q *emem.Config) { q.ConnFreqHz += 1_000_000 })

	if len(c.Caches) > 0 || c.Rob != nil {
		add("entity-set:connection-layout", func(q *emem.Config) { q.OneConn = !q.OneConn })
	}

	for i, cc := range c.Caches {
		i := i
		add(fmt.Sprintf("spec:L%d-ways(+storage-capacity)", i+1), func(q *emem.Config) { q.Caches[i].Ways *= 2 })
		add(fmt.Sprintf("spec:L%d-mshr", i+1), func(q *emem.Config) { q.Caches[i].MSHR++ })
		add(fmt.Sprintf("spec:L%d-bank-latency", i+1), func(q *emem.Config) { q.Caches[i].BankLatency++ })
		add(fmt.Sprintf("port-capacity:L%d", i+1), func(q *emem.Config) { q.Caches[i].PortBuf++ })

		if cc.Kind == "write-around" {
			add(fmt.Sprintf("spec:L%d-write-policy", i+1), func(q *emem.Config) { q.Caches[i].Kind = "write-evict" })
		}
	}

	if c.Rob != nil {
		add("spec:rob-buffer-size", func(q *emem.Config) { q.Rob.BufferSize++ })
		add("port-capacity:rob", func(q *emem.Config) { q.Rob.PortBuf++ })
		add("entity-missing:rob", func(q *emem.Config) { q.Rob = nil })
	}

	add("port-capacity:lower", func(q *emem.Config) { q.Lower.PortBuf++ })

	switch c.Lower.Kind {
	case "ideal":
		add("spec:ideal-latency", func(q *emem.Config) { q.Lower.Latency++ })
		add("storage-shape:capacity", func(q *emem.Config) { q.Lower.CapExtra = 4096 })
	case "banked":
		add("spec:banked-num-banks", func(q *emem.Config) { q.Lower.NumBanks++ })
		add("storage-shape:capacity", func(q *emem.Config) { q.Lower.CapExtra = 4096 })
	case "dram":
		add("spec:dram-page-policy", func(q *emem.Config) { q.Lower.OpenPage = !q.Lower.OpenPage })
	}

	if c.Lower.Count > 1 {
		add("entity-missing:lower-module", func(q *emem.Config) { q.Lower.Count /= 2 })
	} else {
		add("entity-extra:lower-module", func(q *emem.Config) { q.Lower.Count = 2 })
	}

	return out
}

func genC07(r *kit.Rand, tier kit.Tier) C07Case {
	c := C07Case{Cfg: emem.GenConfig(r, tier, emem.GenOpts{OnlyCaches: -1, NoStub: true, MaxOps: 25})}
	c.Cfg.EventCap = 60000
	c.Cut = uint64(r.PickInt(0, 1000, 3000, 7000, 15000, 40000, 100000))

	switch r.Intn(6) {
	case 0:
		c.VM = genSimVM(r, tier)
	case 1:
		c.Net = genSimNet(r)
	}

	if c.VM == nil && c.Net == nil && r.Chance(1, 2) {
		ops := []string{"insert", "insert", "insert", "find", "remove", "update"}
		for i := 0; i < r.Range(1, 10); i++ {
			c.PT = append(c.PT, PTOp{Op: ops[r.Intn(len(ops))], PID: uint32(r.Range(1, 4)), VPage: uint64(r.Intn(6)), PPage: uint64(r.Intn(64))})
		}
	}

	kinds := []string{"truncate", "bitflip", "zerofill", "drop-entry", "dup-entry", "swap-entries", "drop-build-id",
		"port-overfill", "engine-unknown-handler", "engine-empty-handler", "engine-unknown-event-type", "port-unknown-msg-type", "port-msg-type-other-form",
		"storage-absurd-units", "storage-unit-beyond-capacity", "component-spec-hash", "component-state-wrong-json-type", "idgen-kind", "entry-rename"}
	n := 5

	if tier == kit.Thorough {
		n = 12
	}

	for i := 0; i < n; i++ {
		c.Corrupt = append(c.Corrupt, Corruption{Kind: kinds[r.Intn(len(kinds))], A: r.Uint64(), B: r.Uint64()})
	}

	return c
}

// applyCorruption returns the damaged archive, whether Load must fail, and whether it applied.
func applyCorruption(orig []byte, k Corruption) (damaged []byte, mustFail bool, ok bool) {
	switch k.Kind {
	case "truncate":
		n := int(k.A % uint64(len(orig)*9/10+1))
		return append([]byte(nil), orig[:n]...), true, true
	case "bitflip":
		d := append([]byte(nil), orig...)
		d[k.A%uint64(len(d))] ^= 1 << (k.B % 8)

		return d, false, true
	case "zerofill":
		d := append([]byte(nil), orig...)
		s := int(k.A % uint64(len(d)))
		e := min(len(d), s+int(k.B%64)+1)

		for i := s; i < e; i++ {
			d[i] = 0
		}

		return d, false, true
	}

	entries, err := unpack(orig)
	if err != nil || len(entries) < 3 {
		return nil, false, false
	}

	pickEntity := func(pred func(e tarEntry) bool) int {
		var idx []int
		for i, e := range entries {
			if strings.HasPrefix(e.name, "entities/") && pred(e) {
				idx = append(idx, i)
			}
		}

		if len(idx) == 0 {
			return -1
		}

		return idx[k.A%uint64(len(idx))]
	}
	anyEntity := func(tarEntry) bool { return true }
	isPort := func(e tarEntry) bool { return bytes.Contains(e.data, []byte(`"incoming":{"capacity"`)) }
	isComp := func(e tarEntry) bool { return bytes.Contains(e.data, []byte(`"spec_hash"`)) }
	isStorage := func(e tarEntry) bool { return strings.HasSuffix(e.name, ".Storage") }

	switch k.Kind {
	case "drop-entry":
		i := pickEntity(anyEntity)
		return pack(append(entries[:i:i], entries[i+1:]...)), true, true
	case "dup-entry":
		i := pickEntity(anyEntity)
		return pack(append(entries, entries[i])), true, true
	case "swap-entries":
		i, j := pickEntity(anyEntity), 1+int(k.B%uint64(len(entries)-1))
		entries[i], entries[j] = entries[j], entries[i]

		return pack(entries), false, true
	case "drop-build-id":
		return pack(entries[1:]), true, true
	case "entry-rename":
		i := pickEntity(anyEntity)
		entries[i].name += "X"

		return pack(entries), true, true
	case "port-overfill":
		// more buffered elements than the port's capacity
		i := pickEntity(func(e tarEntry) bool {
			return isPort(e) && !bytes.Contains(e.data, []byte(`"incoming":{"capacity":`+"0"))
		})
		if i < 0 {
			return nil, false, false
		}

		// borrow a real typed element from any port that holds one
		var elem json.RawMessage

		for _, e := range entries {
			if !isPort(e) {
				continue
			}

			var p struct {
				Incoming, Outgoing struct {
					Capacity int               `json:"capacity"`
					Elements []json.RawMessage `json:"elements"`
				}
			}

			if json.Unmarshal(e.data, &p) == nil {
				for _, el := range append(p.Incoming.Elements, p.Outgoing.Elements...) {
					elem = el
				}
			}
		}

		if elem == nil {
			return nil, false, false
		}

		var p map[string]map[string]json.RawMessage
		if json.Unmarshal(entries[i].data, &p) != nil {
			return nil, false, false
		}

		var capv int
		_ = json.Unmarshal(p["incoming"]["capacity"], &capv)

		var list []json.RawMessage
		for n := 0; n <= capv; n++ {
			list = append(list, elem)
		}

		p["incoming"]["elements"], _ = json.Marshal(list)
		entries[i].data, _ = json.Marshal(p)

		return pack(entries), true, true
	case "engine-unknown-handler", "engine-empty-handler", "engine-unknown-event-type":
		i := pickEntity(func(e tarEntry) bool { return e.name == "entities/Engine" })
		if i < 0 {
			return nil, false, false
		}

		var eng map[string]json.RawMessage
		if json.Unmarshal(entries[i].data, &eng) != nil {
			return nil, false, false
		}

		for _, q := range []string{"primary", "secondary"} {
			var evs []map[string]json.RawMessage
			if json.Unmarshal(eng[q], &evs) != nil || len(evs) == 0 {
				continue
			}

			// the first event of the queue (the case a validation cache would get wrong)
			switch k.Kind {
			case "engine-unknown-event-type":
				evs[0]["type"] = json.RawMessage(`"example.com/nowhere.GhostEvent"`)
			default:
				var pl map[string]json.RawMessage
				if json.Unmarshal(evs[0]["payload"], &pl) != nil {
					continue
				}

				if k.Kind == "engine-empty-handler" {
					pl["handler_id"] = json.RawMessage(`""`)
				} else {
					pl["handler_id"] = json.RawMessage(`"GhostHandler"`)
				}

				evs[0]["payload"], _ = json.Marshal(pl)
			}

			eng[q], _ = json.Marshal(evs)
			entries[i].data, _ = json.Marshal(eng)

			return pack(entries), true, true
		}

		return nil, false, false
	case "port-unknown-msg-type":
		i := pickEntity(func(e tarEntry) bool { return isPort(e) && bytes.Contains(e.data, []byte(`"type":"`)) })
		if i < 0 {
			return nil, false, false
		}

		entries[i].data = bytes.Replace(entries[i].data, []byte(`"type":"`), []byte(`"type":"example.org/nowhere/`), 1)

		return pack(entries), true, true
	case "port-msg-type-other-form":
		// the pointer form of a message type that is registered in value form: a
		// different Go type, known to nobody
		i := pickEntity(func(e tarEntry) bool {
			return isPort(e) && bytes.Contains(e.data, []byte(`"type":"`)) && !bytes.Contains(e.data, []byte(`"type":"*`))
		})
		if i < 0 {
			return nil, false, false
		}

		entries[i].data = bytes.Replace(entries[i].data, []byte(`"type":"`), []byte(`"type":"*`), 1)

		return pack(entries), true, true
	case "storage-absurd-units", "storage-unit-beyond-capacity":
		i := pickEntity(func(e tarEntry) bool { return isStorage(e) && len(e.data) >= 24 })
		if i < 0 {
			return nil, false, false
		}

		d := append([]byte(nil), entries[i].data...)

		if k.Kind == "storage-absurd-units" {
			binary.LittleEndian.PutUint64(d[16:24], 1<<uint(33+k.B%20)) // claims 2^33..2^52 units
			entries[i].data = d

			return pack(entries), true, true
		}

		if len(d) < 32 {
			return nil, false, false
		}

		capacity := binary.LittleEndian.Uint64(d[0:8])
		binary.LittleEndian.PutUint64(d[24:32], capacity+4096*(1+k.B%8)) // first unit placed beyond the capacity
		entries[i].data = d

		return pack(entries), true, true
	case "component-spec-hash":
		i := pickEntity(isComp)
		if i < 0 {
			return nil, false, false
		}

		entries[i].data = bytes.Replace(entries[i].data, []byte(`"spec_hash":"`), []byte(`"spec_hash":"00`), 1)

		return pack(entries), true, true
	case "component-state-wrong-json-type":
		i := pickEntity(func(e tarEntry) bool { return isComp(e) && bytes.Contains(e.data, []byte(`":[`)) })
		if i < 0 {
			return nil, false, false
		}

		// turn the first array inside the state into a string
		at := bytes.Index(entries[i].data, []byte(`":[`))
		d := append([]byte(nil), entries[i].data[:at+2]...)
		d = append(d, []byte(`"not-an-array",`)...)
		entries[i].data = append(d, entries[i].data[at+2:]...)

		return pack(entries), true, true
	case "idgen-kind":
		i := pickEntity(func(e tarEntry) bool { return e.name == "entities/IDGenerator" })
		if i < 0 {
			return nil, false, false
		}

		entries[i].data = bytes.Replace(entries[i].data, []byte(`"sequential"`), []byte(`"parallel"`), 1)

		return pack(entries), true, true
	}

	return nil, false, false
}

type loadReq struct {
	Cfg     emem.Config `json:"cfg"`
	VM      *evm.Cfg    `json:"vm,omitempty"`
	Net     *enoc.Net   `json:"net,omitempty"`
	HasPT   bool        `json:"has_pt"`
	Archive string      `json:"archive"`
}

// loadInChild loads an archive into a freshly rebuilt simulation inside a
// memory-limited child process and reports "error: …", "panic: …", "ok" or
// "ok-but-resave-failed: …". A child that dies (address-space limit, timeout)
// is reported as "died: …".
func loadInChild(env *kit.Env, cfg emem.Config, vmc *evm.Cfg, netc *enoc.Net, archive []byte) string {
	in, _ := json.Marshal(loadReq{Cfg: cfg, VM: vmc, Net: netc, HasPT: extraPT != nil, Archive: base64.StdEncoding.EncodeToString(archive)})
	cmd := exec.Command("sh", "-c", `ulimit -v 6291456; exec "$0" -helper c07load`, env.Exe)
	cmd.Stdin = bytes.NewReader(in)

	var so, se bytes.Buffer

	cmd.Stdout, cmd.Stderr = &so, &se
	done := make(chan error, 1)

	if err := cmd.Start(); err != nil {
		panic(kit.HarnessError("cannot start load helper: " + err.Error()))
	}

	go func() { done <- cmd.Wait() }()

	select {
	case err := <-done:
		out := strings.TrimSpace(so.String())
		if i := strings.LastIndex(out, "RESULT "); i >= 0 {
			return out[i+7:]
		}

		return fmt.Sprintf("died: %v; stderr: %s", err, clip(se.String(), 300))
	case <-time.After(40 * time.Second):
		_ = cmd.Process.Kill()
		return "died: no result within 40 s"
	}
}

func c07LoadHelper(_ []string) {
	raw, _ := io.ReadAll(os.Stdin)

	var req loadReq
	if err := json.Unmarshal(raw, &req); err != nil {
		fmt.Println("RESULT helper-input-error")
		return
	}

	if req.HasPT {
		extraPT = []PTOp{} // the rebuilt simulation registers the (empty) page table too
	}

	arch, _ := base64.StdEncoding.DecodeString(req.Archive)
	dir, _ := os.MkdirTemp("/dev/shm", "verif-c07-")

	defer os.RemoveAll(dir)
	// the memory-backed twin that the simulations of this helper process use
	defer os.RemoveAll(filepath.Join("/dev/shm", "verif-"+filepath.Base(dir)))

	env := &kit.Env{Scratch: dir}
	path := filepath.Join(dir, "in.akitackpt")
	_ = os.WriteFile(path, arch, 0o600)

	res := func() (res string) {
		defer func() {
			if r := recover(); r != nil {
				res = fmt.Sprintf("panic: %v", r)
			}
		}()

		u := C06Case{Cfg: req.Cfg, VM: req.VM, Net: req.Net}
		s := u.build(env, false)
		if err := s.sim.LoadCheckpoint(path, buildID); err != nil {
			return "error: " + err.Error()
		}

		if err := s.sim.SaveCheckpoint(filepath.Join(dir, "again.akitackpt"), buildID); err != nil {
			return "ok-but-resave-failed: " + err.Error()
		}

		return "ok"
	}()

	fmt.Println("RESULT " + clip(strings.ReplaceAll(res, "\n", " "), 600))
}

func execC07(c C07Case, env *kit.Env) kit.Outcome {
	var out kit.Outcome

	extraPT = nil
	if len(c.PT) > 0 {
		extraPT = c.PT
	}

	defer func() { extraPT = nil }()

	u := C06Case{Cfg: c.Cfg, VM: c.VM, Net: c.Net}
	a := u.build(env, true)
	a.guarded(func() { _ = a.eng.RunUntil(timing.VTimeInPicoSec(c.Cut)) })

	if a.capHit {
		a.close()
		out.Inconclusive = "event-cap"

		return out
	}

	x, err := a.archive(env, "x")
	pendingAtCut := a.eng.CurrentTime() > 0
	a.close()

	if err != nil {
		out.Violation = kit.Violate("checkpoint", "C07:save-failed", "SaveCheckpoint at t=%d: %v", c.Cut, err)
		return out
	}

	xPath := filepath.Join(shmDir(env), "x.akitackpt")
	_ = os.WriteFile(xPath, x, 0o600)

	defer os.Remove(xPath)

	// (a) canonical: save -> load into a rebuilt simulation -> save again
	b := u.build(env, false)
	if err := b.sim.LoadCheckpoint(xPath, buildID); err != nil {
		b.close()
		out.Violation = kit.Violate("canonical-archive", "C07:identical-rebuild-rejected", "LoadCheckpoint into the identically rebuilt simulation failed: %v", err)

		return out
	}

	y, err := b.archive(env, "y")
	b.close()

	if err != nil || !bytes.Equal(x, y) {
		out.Violation = kit.Violate("canonical-archive", "C07:save-load-save-differs", "save, load into the rebuilt simulation, save again is not byte-identical (cut t=%d): %s (%v)", c.Cut, archiveDiff(y, x), err)
		return out
	}

	// (b) every single-point mutation of the rebuilt configuration must be rejected
	cat := mismatchCatalogue(c.Cfg)
	if c.VM != nil || c.Net != nil {
		cat = nil
	}

	rejected := 0

	// loads the archive into the simulation that mk builds; must be refused
	checkWith := func(name string, mk func() *simRun, id string) *kit.Violation {
		var v *kit.Violation

		func() {
			defer func() {
				if r := recover(); r != nil {
					v = kit.Violate("mismatch-rejected", "C07:mismatch-panics["+kindOf(name)+"]", "loading into a simulation rebuilt with %s panicked: %v", name, r)
				}
			}()

			m := mk()
			defer m.close()

			if err := m.sim.LoadCheckpoint(xPath, id); err == nil {
				v = kit.Violate("mismatch-rejected", "C07:mismatch-accepted["+kindOf(name)+"]", "the archive loaded without error into a simulation rebuilt with a different configuration (%s)", name)
			}
		}()

		return v
	}

	if c.VM != nil {
		muts := map[string]func(v *evm.Cfg){
			"vm:page-size":    func(v *evm.Cfg) { v.Log2Page++ },
			"vm:mmu-latency":  func(v *evm.Cfg) { v.MMULatency++ },
			"vm:mmu-inflight": func(v *evm.Cfg) { v.MMUInflight++ },
		}

		if len(c.VM.TLBs) > 0 {
			muts["vm:tlb-ways"] = func(v *evm.Cfg) { v.TLBs = append([]evm.TLBCfg(nil), v.TLBs...); v.TLBs[0].Ways++ }
			muts["vm:tlb-removed"] = func(v *evm.Cfg) { v.TLBs = v.TLBs[1:] }
		}

		if c.VM.MMUCache {
			muts["vm:mmucache-blocks"] = func(v *evm.Cfg) { v.MCBlocks++ }
		}

		if len(c.VM.Reqs) > 0 && len(c.VM.Reqs[0].Ops) > 1 {
			muts["vm:requester-script"] = func(v *evm.Cfg) {
				v.Reqs = append([]evm.VReq(nil), v.Reqs...)
				v.Reqs[0].Ops = v.Reqs[0].Ops[:len(v.Reqs[0].Ops)-1]
			}
		}

		var names []string
		for n := range muts {
			names = append(names, n)
		}

		sort.Strings(names)

		for _, n := range names {
			if c.OnlyMut != "" && c.OnlyMut != n {
				continue
			}

			q := *c.VM
			muts[n](&q)

			if v := checkWith(n, func() *simRun { return newSimVM(&q, env, false) }, buildID); v != nil {
				out.Violation = v
				return out
			}

			rejected++
		}
	}

	if c.Net != nil {
		muts := map[string]func(n *enoc.Net){}

		if c.Net.Kind == "generic" || c.Net.Kind == "mesh" {
			// the PCIe and NVLink connectors take their flit size from the link version
			muts["net:flit-size"] = func(n *enoc.Net) { n.FlitSize *= 2 }
		}

		if c.Net.Kind == "generic" {
			muts["net:port-buffer-capacity"] = func(n *enoc.Net) { n.Link.Buf++ }
		}

		// one more device: the entity set differs
		muts["net:extra-device"] = func(n *enoc.Net) {
			d := n.Devs[len(n.Devs)-1]
			d.Tile = [3]int{d.Tile[0] + 1, d.Tile[1], d.Tile[2]}

			if n.Kind == "mesh" {
				far := 0
				for _, o := range n.Devs {
					far = max(far, o.Tile[0])
				}

				d.Tile = [3]int{far + 1, 0, 0}
			}

			n.Devs = append(append([]enoc.Dev(nil), n.Devs...), d)
		}

		if len(c.Net.Msgs) > 1 {
			muts["net:device-script"] = func(n *enoc.Net) { n.Msgs = n.Msgs[:len(n.Msgs)-1] }
		}

		if c.Net.Kind == "generic" {
			muts["net:extra-switch"] = func(n *enoc.Net) {
				n.Links = append(append([][2]int(nil), n.Links...), [2]int{0, n.Switches})
				n.Switches++
			}
		}

		var names []string
		for n := range muts {
			names = append(names, n)
		}

		sort.Strings(names)

		for _, nm := range names {
			if c.OnlyMut != "" && c.OnlyMut != nm {
				continue
			}

			q := *c.Net
			q.Msgs = append([]enoc.TMsg(nil), c.Net.Msgs...)
			muts[nm](&q)

			if v := checkWith(nm, func() *simRun { return newSimNet(&q, env, false) }, buildID); v != nil {
				out.Violation = v
				return out
			}

			rejected++
		}
	}

	check := func(name string, cfg emem.Config, id string) *kit.Violation {
		var v *kit.Violation

		func() {
			defer func() {
				if r := recover(); r != nil {
					v = kit.Violate("mismatch-rejected", "C07:mismatch-panics["+kindOf(name)+"]", "loading into a simulation rebuilt with %s panicked: %v", name, r)
				}
			}()

			m := newSim(&cfg, env, false)
			defer m.close()

			if err := m.sim.LoadCheckpoint(xPath, id); err == nil {
				v = kit.Violate("mismatch-rejected", "C07:mismatch-accepted["+kindOf(name)+"]", "the archive loaded without error into a simulation rebuilt with a different configuration (%s)", name)
			}
		}()

		return v
	}

	if c.OnlyMut == "" || c.OnlyMut == "build-id" {
		if v := checkWith("build-id", func() *simRun { return u.build(env, false) }, buildID+"-other"); v != nil {
			out.Violation = v
			return out
		}

		rejected++
	}

	for _, m := range cat {
		if c.OnlyMut != "" && c.OnlyMut != m.name {
			continue
		}

		if v := check(m.name, m.cfg, buildID); v != nil {
			out.Violation = v
			return out
		}

		rejected++
	}

	// (c) storage faults on the archive
	applied := map[string]int{}

	for _, k := range c.Corrupt {
		d, mustFail, ok := applyCorruption(x, k)
		if !ok {
			continue
		}

		applied[k.Kind]++
		res := loadInChild(env, c.Cfg, c.VM, c.Net, d)

		switch {
		case strings.HasPrefix(res, "panic:"):
			out.Violation = kit.Violate("corrupt-archive", "C07:corrupt-archive-panics["+k.Kind+"]", "loading an archive damaged by %s (a=%d b=%d) panicked: %s", k.Kind, k.A, k.B, res)
			return out
		case strings.HasPrefix(res, "died:"):
			out.Violation = kit.Violate("corrupt-archive", "C07:corrupt-archive-exhausts-resources["+k.Kind+"]", "loading an archive damaged by %s (a=%d b=%d) killed the process (6 GiB address-space limit / 40 s): %s", k.Kind, k.A, k.B, res)
			return out
		case strings.HasPrefix(res, "ok-but-resave-failed"):
			out.Violation = kit.Violate("corrupt-archive", "C07:accepted-archive-cannot-be-saved["+k.Kind+"]", "an archive damaged by %s loaded without error but the simulation cannot be saved again: %s", k.Kind, res)
			return out
		case res == "ok" && mustFail:
			out.Violation = kit.Violate("corrupt-archive", "C07:malformed-archive-accepted["+k.Kind+"]", "an archive damaged by %s (a=%d b=%d) loaded without error", k.Kind, k.A, k.B)
			return out
		case strings.HasPrefix(res, "helper-input-error"):
			panic(kit.HarnessError("c07 helper could not read its input"))
		}
	}

	var kinds []string
	for kname, n := range applied {
		out.Fault("archive-"+kname, n)
		kinds = append(kinds, kname)
	}

	sort.Strings(kinds)
	out.Fault("config-mismatch(enumerated)", rejected)
	out.Probe("cut-after-first-event", btoi(pendingAtCut))
	desc := emem.Describe(&c.Cfg)

	switch {
	case c.VM != nil:
		desc = fmt.Sprintf("vm-stack tlbs=%d mmucache=%v gmmu=%v reqs=%d", len(c.VM.TLBs), c.VM.MMUCache, c.VM.GMMU, len(c.VM.Reqs))
		out.Probe("assembly:vm-stack", 1)
	case c.Net != nil:
		desc = enoc.Describe(c.Net)
		out.Probe("assembly:network", 1)
	default:
		out.Probe("assembly:memory-hierarchy", 1)
	}

	out.Shape = fmt.Sprintf("%s|%d|%v", desc, c.Cut, kinds)
	out.NonTrivial = (rejected >= 5 || (c.VM != nil || c.Net != nil) && rejected >= 2) && pendingAtCut
	out.Sample = map[string]any{"assembly": desc, "cut": c.Cut, "mismatches_enumerated": rejected, "corruptions": kinds}

	return out
}

func kindOf(name string) string {
	if i := strings.Index(name, ":"); i > 0 {
		return name[:i]
	}

	return name
}

func init() {
	kit.RegisterHelper("c07load", c07LoadHelper)
	kit.Register(kit.Spec[C07Case]{
		ID: "C07", Level: "fault_enumeration",
		Rule: "random memory hierarchies (one run in three: a translation stack or a switched network, with their own mismatch lists: page size, TLB geometry, MMU parameters, requester script; flit size, device script, extra switch) on a real simulation.Simulation, run to a seeded cut and saved; (a) the archive is loaded into an identically rebuilt simulation and saved again: byte-identical; (b) the whole catalogue of single-point mutations of the rebuilt configuration that applies to the assembly is enumerated " +
			"(build ID; requester / ROB / lower-module added or removed; connection layout; every cache's ways, MSHR, bank latency, write policy; requester script and max outstanding; ROB size; controller latency / banks / page policy; connection frequency; every port buffer capacity; storage capacity): LoadCheckpoint must return an error and must not panic; " +
			"(c) 5 (thorough 12) seeded storage faults on the archive (truncation, bit flip, zero fill, dropped / duplicated / swapped / renamed tar entries, missing build ID, port buffer over its capacity, unknown or empty event handler on the first queued event, unknown event / message type tag, absurd storage unit count, storage unit beyond capacity, wrong spec hash, wrong JSON type in a State, wrong ID-generator kind) are loaded in a child process under a 6 GiB address-space limit: never a panic or a resource blow-up, an error where the damage is structural, and an accepted archive must be savable again; " +
			"distinct = hash of (assembly, cut, corruption kinds); non-trivial = >= 5 mismatches enumerated and the cut lies after the first event",
		Assumptions: []string{"bit flips and zero fills may legitimately yield a well-formed archive and are only required not to crash", "a stand-alone page table is registered as a resource in half of the runs (canonical form of empty per-process tables); VM components are not part of the assemblies"},
		Real:        []string{"simulation archive reader/writer", "simulation.LoadCheckpoint coverage checks", "modeling.Component / messaging.Port / mem.Storage / timing engine + ID generator LoadCheckpoint", "internal/codec"},
		Stubs:       []string{"checkpointable scripted requesters"},
		FaultKinds:  []string{"config-mismatch(enumerated)", "archive-truncate", "archive-bitflip", "archive-zerofill", "archive-drop-entry", "archive-dup-entry", "archive-swap-entries", "archive-drop-build-id", "archive-entry-rename", "archive-port-overfill", "archive-engine-unknown-handler", "archive-engine-empty-handler", "archive-engine-unknown-event-type", "archive-port-unknown-msg-type", "archive-port-msg-type-other-form", "archive-storage-absurd-units", "archive-storage-unit-beyond-capacity", "archive-component-spec-hash", "archive-component-state-wrong-json-type", "archive-idgen-kind"},
		Quick:       kit.Budget{Runs: 300, WallS: 110, CaseS: 300},
		Thorough:    kit.Budget{Runs: 60000, WallS: 1700, CaseS: 600},
		Gen:         genC07, Exec: execC07,
		Shrink: func(c C07Case) []C07Case {
			var out []C07Case

			for _, l := range kit.ListShrinks(c.Corrupt) {
				q := c
				q.Corrupt = l
				out = append(out, q)
			}

			if c.VM != nil || c.Net != nil {
				return out
			}

			for _, q := range emem.ShrinkConfig(c.Cfg) {
				out = append(out, C07Case{Cfg: q, Cut: c.Cut, Corrupt: c.Corrupt, OnlyMut: c.OnlyMut, PT: c.PT})
			}

			return out
		},
	})
}
