package eckpt

import (
	"fmt"
	"path/filepath"

	"github.com/sarchlab/akita/v5/mem/vm"
	"github.com/sarchlab/akita/v5/mem/vm/vmprotocol"
	"github.com/sarchlab/akita/v5/messaging"
	"github.com/sarchlab/akita/v5/modeling"
	"github.com/sarchlab/akita/v5/noc/packetization"
	"github.com/sarchlab/akita/v5/simulation"
	"github.com/sarchlab/akita/v5/timing"
	"github.com/sarchlab/akita/v5/tracing"

	"verif/props/enoc"
	"verif/props/evm"
	"verif/sim/kit"
)

// ---- checkpointable translation requester ----

type vreqSpec struct {
	PID    []uint32 `json:"pid"`
	VAddr  []uint64 `json:"vaddr"`
	MaxOut int      `json:"max_out"`
	Dst    string   `json:"dst"`
}

type vreqState struct {
	Next    int     `json:"next"`
	Done    int     `json:"done"`
	Out     []ckOut `json:"out"`
	RspHash uint64  `json:"rsp_hash"`
	Problem string  `json:"problem"`
}

type vreqComp = modeling.Component[vreqSpec, vreqState, modeling.None]

type vreqMW struct{ comp *vreqComp }

func (m *vreqMW) port() messaging.Port { return m.comp.GetPortByName("Out") }

func (m *vreqMW) Tick() bool {
	st := &m.comp.State
	spec := m.comp.Spec()
	progress := false

	for {
		msg := m.port().RetrieveIncoming()
		if msg == nil {
			break
		}

		progress = true
		found := -1

		for i, o := range st.Out {
			if o.ID == msg.Meta().RspTo {
				found = i
				break
			}
		}

		if found < 0 {
			st.Problem = fmt.Sprintf("response RspTo=%d matches no outstanding request", msg.Meta().RspTo)
			continue
		}

		ord := st.Out[found].Ord
		st.Out = append(st.Out[:found], st.Out[found+1:]...)
		st.Done++

		if r, ok := msg.(vmprotocol.TranslationRsp); ok {
			st.RspHash = mix(st.RspHash, uint64(ord), r.Page.PAddr, r.Page.VAddr, uint64(r.Page.PID), r.Page.DeviceID)
		}
	}

	for st.Next < len(spec.PID) && len(st.Out) < spec.MaxOut && m.port().CanSend() {
		k := st.Next
		id := timing.GetIDGenerator().Generate()
		meta := messaging.MsgMeta{ID: id, Src: m.port().AsRemote(), Dst: messaging.RemotePort(spec.Dst), TrafficClass: "vmprotocol.TranslationReq"}
		m.port().Send(vmprotocol.TranslationReq{MsgMeta: meta, VAddr: spec.VAddr[k], PID: vm.PID(spec.PID[k]), DeviceID: 1})
		st.Out = append(st.Out, ckOut{ID: id, Ord: k})
		st.Next++
		progress = true
	}

	return progress
}

// newSimVM builds a translation stack (no address translator, no control script)
// on a real simulation with checkpointable requesters.
func newSimVM(cfg *evm.Cfg, env *kit.Env, kick bool) *simRun {
	timing.ResetIDGenerator()
	timing.UseSequentialIDGenerator()
	tracing.VerifResetRegistries()

	simSeq++
	r := &simRun{cap: cfg.EventCap, path: filepath.Join(shmDir(env), fmt.Sprintf("sim%d", simSeq))}
	r.sim = simulation.MakeBuilder().WithoutMonitoring().WithOutputFileName(r.path).Build()
	r.eng = r.sim.GetEngine().(*timing.SerialEngine)

	var reqs []interface{ TickLater() }

	evm.NoEngineHook = true

	defer func() { evm.NoEngineHook = false }()

	evm.BuildOn(r.sim, cfg, func(i int, w *evm.World, dst messaging.RemotePort) messaging.Port {
		rc := cfg.Reqs[i]
		spec := vreqSpec{MaxOut: rc.MaxOut, Dst: string(dst)}

		for _, op := range rc.Ops {
			spec.PID = append(spec.PID, op.PID)
			spec.VAddr = append(spec.VAddr, op.VPage<<cfg.Log2Page)
		}

		comp := modeling.NewBuilder[vreqSpec, vreqState, modeling.None]().
			WithEngine(r.eng).WithFreq(1 * timing.GHz).WithSpec(spec).Build(fmt.Sprintf("Req%d", i))
		comp.AddMiddleware(&vreqMW{comp: comp})
		comp.DeclarePort("Out")
		r.sim.RegisterComponent(comp)
		reqs = append(reqs, comp)

		return w.NewPort(comp, "Out", rc.PortBuf)
	})

	r.eng.AcceptHook(traceHook{r})

	if kick {
		for _, q := range reqs {
			q.TickLater()
		}
	}

	return r
}

// ---- checkpointable network device ----

type devSpec struct {
	SrcPort []int    `json:"src_port"`
	Dst     []string `json:"dst"`
	Bytes   []int    `json:"bytes"`
	Class   []string `json:"class"`
	RspTo   []uint64 `json:"rsp_to"`
	NPorts  int      `json:"n_ports"`
}

type devState struct {
	Next     int    `json:"next"`
	Received int    `json:"received"`
	RecvHash uint64 `json:"recv_hash"`
}

type devComp = modeling.Component[devSpec, devState, modeling.None]

type devMW struct{ comp *devComp }

type netMsg struct{ messaging.MsgMeta }

func (m *devMW) Tick() bool {
	st := &m.comp.State
	spec := m.comp.Spec()
	progress := false

	for p := 0; p < spec.NPorts; p++ {
		port := m.comp.GetPortByName(fmt.Sprintf("Port%d", p))

		for {
			msg := port.RetrieveIncoming()
			if msg == nil {
				break
			}

			progress = true
			st.Received++
			meta := msg.Meta()
			h := uint64(0)

			for _, ch := range string(meta.Src) + "|" + string(meta.Dst) + "|" + meta.TrafficClass {
				h = h*131 + uint64(ch)
			}

			st.RecvHash = mix(st.RecvHash, uint64(p), uint64(meta.TrafficBytes), meta.RspTo, h)
		}
	}

	for st.Next < len(spec.Dst) {
		k := st.Next
		port := m.comp.GetPortByName(fmt.Sprintf("Port%d", spec.SrcPort[k]))

		if !port.CanSend() {
			break
		}

		meta := messaging.MsgMeta{ID: timing.GetIDGenerator().Generate(), Src: port.AsRemote(), Dst: messaging.RemotePort(spec.Dst[k]), RspTo: spec.RspTo[k], TrafficClass: spec.Class[k], TrafficBytes: spec.Bytes[k]}
		port.Send(netMsg{meta})
		st.Next++
		progress = true
	}

	return progress
}

// newSimNet builds a switched network on a real simulation with checkpointable
// devices (no send times, no receiver stalls: those use harness events).
func newSimNet(cfg *enoc.Net, env *kit.Env, kick bool) *simRun {
	timing.ResetIDGenerator()
	timing.UseSequentialIDGenerator()
	tracing.VerifResetRegistries()

	simSeq++
	r := &simRun{cap: int(cfg.EventCap), path: filepath.Join(shmDir(env), fmt.Sprintf("sim%d", simSeq))}
	r.sim = simulation.MakeBuilder().WithoutMonitoring().WithOutputFileName(r.path).Build()
	r.eng = r.sim.GetEngine().(*timing.SerialEngine)

	var devs []interface{ TickLater() }

	enoc.BuildOn(r.sim, cfg, func(i int) []messaging.Port {
		spec := devSpec{NPorts: cfg.Devs[i].Ports}

		for _, m := range cfg.Msgs {
			if m.S[0] != i {
				continue
			}

			spec.SrcPort = append(spec.SrcPort, m.S[1])
			spec.Dst = append(spec.Dst, fmt.Sprintf("Dev[%d].Port%d", m.D[0], m.D[1]))
			spec.Bytes = append(spec.Bytes, m.Bytes)
			spec.Class = append(spec.Class, m.Class)
			spec.RspTo = append(spec.RspTo, m.RspTo)
		}

		comp := modeling.NewBuilder[devSpec, devState, modeling.None]().
			WithEngine(r.eng).WithFreq(timing.Freq(cfg.FreqHz)).WithSpec(spec).Build(fmt.Sprintf("Dev[%d]", i))
		comp.AddMiddleware(&devMW{comp: comp})

		var ports []messaging.Port

		for p := 0; p < cfg.Devs[i].Ports; p++ {
			name := fmt.Sprintf("Port%d", p)
			comp.DeclarePort(name)
			port := modeling.MakePortBuilder().WithRegistrar(r.sim).WithComponent(comp).
				WithSpec(modeling.PortSpec{BufSize: cfg.Devs[i].Buf}).Build(name)
			comp.AssignPort(name, port)
			ports = append(ports, port)
		}

		r.sim.RegisterComponent(comp)
		devs = append(devs, comp)

		return ports
	})

	r.eng.AcceptHook(traceHook{r})

	if kick {
		for _, d := range devs {
			d.TickLater()
		}
	}

	return r
}

var _ = packetization.AssembledMsg{}

func init() { messaging.RegisterMsg(netMsg{}) }
