package eckpt

import (
	"github.com/sarchlab/akita/v5/hooking"
	"github.com/sarchlab/akita/v5/messaging"
)

type hookCtx = hooking.HookCtx

type nullConn struct{ hooking.HookableBase }

func (c *nullConn) Name() string                     { return "NullConn" }
func (c *nullConn) PlugIn(p messaging.Port)          { p.SetConnection(c) }
func (c *nullConn) Unplug(_ messaging.Port)          {}
func (c *nullConn) NotifyAvailable(_ messaging.Port) {}
func (c *nullConn) NotifySend()                      {}
