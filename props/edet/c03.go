// Package edet checks determinism (C03): the same configuration and script are
// executed several times — in one process (Go randomises map iteration per
// range, so order dependence shows there too) and in fresh processes with a
// different GOMAXPROCS — and everything observable is compared.
package edet

import (
	"bytes"
	"encoding/base64"
	"encoding/json"
	"fmt"
	"io"
	"os"

	"verif/props/eckpt"
	"verif/props/emem"
	"verif/props/enet"
	"verif/props/evm"
	"verif/props/tracelog"
	"verif/sim/kit"
)

// Case is one (configuration, script) of one of the engines.
type Case struct {
	Sim   *emem.Config  `json:"sim,omitempty"`  // real simulation.Simulation with checkpointable requesters: trace + final archive
	Mem   *emem.C17Case `json:"mem,omitempty"`  // hierarchy + control script (filtered flushes)
	VM    *evm.Cfg      `json:"vm,omitempty"`   // translation stack (auto allocation, updates)
	Net   *enet.NetCase `json:"net,omitempty"`  // agents on direct connections
	Reps  int           `json:"reps"`
	Fresh bool          `json:"fresh"`
}

type fingerprint struct {
	Lines   []string `json:"lines"`
	Archive string   `json:"archive,omitempty"`
	CapHit  bool     `json:"cap_hit"`
}

func run(c *Case, env *kit.Env) fingerprint {
	switch {
	case c.Sim != nil:
		lines, arch, capHit := eckpt.TraceSim(c.Sim, env)
		return fingerprint{Lines: lines, Archive: base64.StdEncoding.EncodeToString(arch), CapHit: capHit}
	case c.Mem != nil:
		l, w, _ := emem.TraceRun(&c.Mem.Cfg, c.Mem.Steps, nil)
		return fingerprint{Lines: l.Lines, CapHit: w.CapHit}
	case c.VM != nil:
		l, w := evm.TraceRun(*c.VM)
		return fingerprint{Lines: l.Lines, CapHit: w.CapHit}
	default:
		l := enet.TraceRun(*c.Net)
		return fingerprint{Lines: l.Lines}
	}
}

func gen(r *kit.Rand, tier kit.Tier) Case {
	c := Case{Reps: 2, Fresh: r.Chance(1, 20)}

	if tier == kit.Thorough {
		c.Reps = 4
		c.Fresh = r.Chance(1, 8)
	}

	switch r.Weighted(3, 3, 4, 1) {
	case 0:
		cfg := emem.GenConfig(r, tier, emem.GenOpts{OnlyCaches: -1, NoStub: true, MaxOps: 30})
		cfg.EventCap = 80000
		c.Sim = &cfg
	case 1:
		m := emem.GenC17(r, tier)
		c.Mem = &m
	case 2:
		auto := r.Chance(1, 2)
		v := evm.Gen(r, tier, auto)

		if !auto && r.Chance(1, 2) {
			evm.AddUpdates(r, &v)
		}

		c.VM = &v
	default:
		n := enet.GenNet(r, tier, 3)
		c.Net = &n
	}

	return c
}

func compare(a, b fingerprint, what string) *kit.Violation {
	if d := tracelog.FirstDiff(a.Lines, b.Lines); d != "" {
		return kit.Violate("repeat-execution", "C03:trace-differs", "%s: the same configuration and script produced a different run: %s", what, d)
	}

	if a.Archive != b.Archive {
		x, _ := base64.StdEncoding.DecodeString(a.Archive)
		y, _ := base64.StdEncoding.DecodeString(b.Archive)

		return kit.Violate("repeat-execution", "C03:final-state-differs", "%s: same events and messages but a different final state: %s", what, eckpt.ArchiveDiff(x, y))
	}

	return nil
}

func exec(c Case, env *kit.Env) kit.Outcome {
	var out kit.Outcome

	base := run(&c, env)
	if base.CapHit {
		out.Inconclusive = "event-cap"
		return out
	}

	for k := 1; k < max(2, c.Reps); k++ {
		again := run(&c, env)
		if v := compare(again, base, fmt.Sprintf("execution %d in the same process", k+1)); v != nil {
			out.Violation = v
			return out
		}
	}

	if c.Fresh && env.Exe != "" {
		raw, _ := json.Marshal(c)

		for _, procs := range []string{"1", "7"} {
			outp, err := kit.RunFresh(env, "c03", raw, []string{"GOMAXPROCS=" + procs})
			if err != nil {
				panic(kit.HarnessError("c03 helper: " + err.Error()))
			}

			var other fingerprint
			if err := json.Unmarshal(outp, &other); err != nil {
				panic(kit.HarnessError("c03 helper output: " + err.Error()))
			}

			if v := compare(other, base, "execution in a fresh process with GOMAXPROCS="+procs); v != nil {
				out.Violation = v
				return out
			}
		}

		out.Probe("fresh-process-executions", 2)
	}

	kind := "net"

	switch {
	case c.Sim != nil:
		kind = "simulation+archive"
	case c.Mem != nil:
		kind = "hierarchy+control-script"
	case c.VM != nil:
		kind = "translation-stack"
	}

	out.Probe("engine:"+kind, 1)
	out.Events = uint64(len(base.Lines))
	out.Shape = fmt.Sprintf("%s|%d|%x", kind, len(base.Lines), kit.Hash64(fmt.Sprint(base.Lines)))
	out.NonTrivial = len(base.Lines) >= 50
	out.Sample = map[string]any{"engine": kind, "records": len(base.Lines), "repetitions": max(2, c.Reps), "fresh": c.Fresh}

	return out
}

func init() {
	kit.RegisterHelper("c03", func(_ []string) {
		raw, _ := io.ReadAll(os.Stdin)

		var c Case
		if err := json.Unmarshal(raw, &c); err != nil {
			os.Exit(2)
		}

		dir, _ := os.MkdirTemp("/dev/shm", "verif-c03-")

		defer os.RemoveAll(dir)

		fp := run(&c, &kit.Env{Scratch: dir})

		var buf bytes.Buffer
		_ = json.NewEncoder(&buf).Encode(fp)
		_, _ = os.Stdout.Write(buf.Bytes())
	})
	kit.Register(kit.Spec[Case]{
		ID: "C03", Level: "exploration",
		Rule: "one (configuration, script) drawn from four engines — memory hierarchies on a real simulation.Simulation (trace + final checkpoint archive), hierarchies with drain / filtered-flush control scripts, translation stacks with MMU auto allocation or page-table update histories, agent networks on direct connections — is executed 2 (thorough 4) times in one process and, for 1 case in 20 (thorough 8), twice more in fresh processes with GOMAXPROCS 1 and 7; " +
			"every handled event (time, handler, type, payload with IDs), every message at every port hook position (all fields) and, for the first engine, the final archive of every entity must be identical; distinct = hash of the whole record; non-trivial = at least 50 records",
		Assumptions: []string{"detection of a map-order dependence is probabilistic per execution pair (Go randomises iteration per range statement); replays retry up to 12 times", "networks-on-chip and the data mover are not part of this generator yet"},
		Real:        []string{"all components of the E-mem, E-vm, E-net engines", "simulation.Simulation", "timing sequential ID generator", "tracing side tables (process-global state)"},
		Stubs:       []string{"requesters, drivers, stubs of the respective engines"},
		FaultKinds:  []string{},
		ReplayTries: 12,
		Quick:       kit.Budget{Runs: 4000, WallS: 100, CaseS: 200},
		Thorough:    kit.Budget{Runs: 400000, WallS: 1500, CaseS: 400},
		Gen:         gen, Exec: exec,
	})
}
