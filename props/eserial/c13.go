package eserial

import (
	"bytes"
	"fmt"

	"github.com/sarchlab/akita/v5/messaging"
	"github.com/sarchlab/akita/v5/modeling"
	"github.com/sarchlab/akita/v5/timing"

	"verif/sim/kit"
)

// wakeOp is one scripted action. Driver ops happen in a driver event at Time;
// processor ops (InProc) happen inside the N-th processor run.
type wakeOp struct {
	Time      uint64 `json:"t,omitempty"`
	Secondary bool   `json:"s,omitempty"`
	Kind      string `json:"k"` // at now recv free deliver
	Delta     uint64 `json:"d,omitempty"`
	InProc    int    `json:"in_proc,omitempty"` // >0: performed inside that processor run
}

type wakeCase struct {
	Ops []wakeOp `json:"ops"`
}

type wkSpec struct {
	N int `json:"n"`
}
type wkState struct {
	N int `json:"n"`
}

type wkRec struct {
	seq    int
	time   uint64
	kind   string // run req notif
	target uint64
}

type wkWorld struct {
	c    *wakeCase
	eng  *timing.SerialEngine
	comp *modeling.EventDrivenComponent[wkSpec, wkState, modeling.None]
	port messaging.Port
	hist []wkRec
	runs int
	mid  uint64

	restarts int
	inProc   bool
}

type wkMsg struct {
	messaging.MsgMeta
}

type wkProc struct{ w *wkWorld }

func (w *wkWorld) rec(kind string, target uint64) {
	w.hist = append(w.hist, wkRec{seq: len(w.hist), time: uint64(w.eng.CurrentTime()), kind: kind, target: target})
}

func (w *wkWorld) do(op wakeOp) {
	now := uint64(w.eng.CurrentTime())

	switch op.Kind {
	case "at":
		w.rec("req", now+op.Delta)
		w.comp.ScheduleWakeAt(timing.VTimeInPicoSec(now + op.Delta))
	case "now":
		w.rec("req", now)
		w.comp.ScheduleWakeNow()
	case "recv":
		w.rec("notif", now)
		w.comp.NotifyRecv(w.port)
	case "free":
		w.rec("notif", now)
		w.comp.NotifyPortFree(w.port)
	case "restart":
		if w.inProc {
			return // the component lock is held while its processor runs
		}

		// checkpoint the component and load it back (a restart that keeps the
		// engine queue): the wakeup guard must survive unchanged
		var buf bytes.Buffer
		if err := w.comp.SaveCheckpoint(&buf); err != nil {
			panic(fmt.Sprintf("SaveCheckpoint: %v", err))
		}

		if err := w.comp.LoadCheckpoint(&buf); err != nil {
			panic(fmt.Sprintf("LoadCheckpoint: %v", err))
		}

		w.restarts++
	case "deliver":
		if w.port.CanDeliver() {
			empty := w.port.NumIncoming() == 0
			if empty {
				w.rec("notif", now)
			}

			w.mid++
			w.port.Deliver(wkMsg{messaging.MsgMeta{ID: w.mid, Src: "Other.P", Dst: w.port.AsRemote()}})
		}
	}
}

func (p wkProc) Process(_ *modeling.EventDrivenComponent[wkSpec, wkState, modeling.None], now timing.VTimeInPicoSec) bool {
	w := p.w
	w.runs++
	w.rec("run", uint64(now))

	for w.port.RetrieveIncoming() != nil {
	}

	w.inProc = true

	for _, op := range w.c.Ops {
		if op.InProc == w.runs {
			w.do(op)
		}
	}

	w.inProc = false

	return true
}

type wkDriver struct{ w *wkWorld }

type wkEvent struct {
	time      timing.VTimeInPicoSec
	secondary bool
	op        int
}

func (e wkEvent) Time() timing.VTimeInPicoSec { return e.time }
func (e wkEvent) HandlerID() string           { return "Driver" }
func (e wkEvent) IsSecondary() bool           { return e.secondary }

func (d wkDriver) Handle(e timing.Event) error {
	d.w.do(d.w.c.Ops[e.(wkEvent).op])
	return nil
}

func genWake(r *kit.Rand, tier kit.Tier) wakeCase {
	var c wakeCase

	n := r.Range(1, 25)
	if tier == kit.Thorough {
		n = r.Range(1, 120)
	}

	lattice := r.PickU64(1, 5, 1000)
	span := uint64(r.Range(1, 12))

	for i := 0; i < n; i++ {
		op := wakeOp{Kind: []string{"at", "now", "recv", "free", "deliver", "restart"}[r.Weighted(8, 2, 2, 2, 2, 2)]}
		op.Delta = r.PickU64(0, 0, 1, 2, 3, 5, 8) * lattice

		if r.Chance(1, 3) {
			op.InProc = r.Range(1, 6)
		} else {
			op.Time = uint64(r.Intn(int(span)+1)) * lattice
			op.Secondary = r.Chance(1, 3)
		}

		c.Ops = append(c.Ops, op)
	}

	return c
}

func execWake(c wakeCase, _ *kit.Env) kit.Outcome {
	var out kit.Outcome

	w := &wkWorld{c: &c, eng: timing.NewSerialEngine()}
	w.comp = modeling.NewEventDrivenBuilder[wkSpec, wkState, modeling.None]().
		WithEngine(w.eng).WithSpec(wkSpec{}).WithProcessor(wkProc{w}).Build("Sleeper")
	w.port = messaging.NewPort(w.comp, 4, 4, "Sleeper.P")
	w.comp.DeclarePort("P")
	w.comp.AssignPort("P", w.port)
	w.port.SetConnection(&wkStubConn{})
	w.eng.RegisterHandler("Driver", wkDriver{w})

	for i, op := range c.Ops {
		if op.InProc == 0 {
			w.eng.Schedule(wkEvent{time: timing.VTimeInPicoSec(op.Time), secondary: op.Secondary, op: i})
		}
	}

	events := 0
	w.eng.AcceptHook(&hookBox{f: func(ctx hookCtx) {
		if ctx.Pos == timing.HookPosBeforeEvent {
			events++
			if events > 20000 {
				panic(kit.HarnessError("C13 event cap exceeded"))
			}
		}
	}})

	_ = w.eng.Run()

	// oracle over the history
	reqs, notifs, earlier, later, equal := 0, 0, 0, 0, 0
	pending := uint64(0)
	hasPending := false

	for i, h := range w.hist {
		switch h.kind {
		case "run":
			hasPending = false
		case "req":
			if hasPending {
				switch {
				case h.target < pending:
					earlier++
				case h.target > pending:
					later++
				default:
					equal++
				}
			}

			if !hasPending || h.target < pending {
				pending, hasPending = h.target, true
			}
		}

		if h.kind != "req" && h.kind != "notif" {
			continue
		}

		ok := false

		for _, g := range w.hist[i+1:] {
			if g.kind == "run" && g.time <= h.target {
				ok = true
				break
			}

			if g.time > h.target {
				break
			}
		}

		if h.kind == "req" {
			reqs++

			if !ok {
				out.Violation = kit.Violate("wake-deadline", "C13:late-or-missing-wakeup",
					"at t=%d (history #%d) a wakeup was requested for t=%d, but the processor did not run at any time <= %d afterwards; history: %s",
					h.time, h.seq, h.target, h.target, fmtHist(w.hist))

				return out
			}
		} else {
			notifs++

			if !ok {
				out.Violation = kit.Violate("wake-deadline", "C13:notification-not-served-now",
					"at t=%d (history #%d) the component was notified (receive / port free) but its processor did not run at that instant afterwards; history: %s",
					h.time, h.seq, fmtHist(w.hist))

				return out
			}
		}
	}

	out.Events = uint64(events)
	out.SimTimePs = uint64(w.eng.CurrentTime())
	out.Probe("request-earlier-than-pending", earlier)
	out.Probe("request-later-than-pending", later)
	out.Probe("request-equal-to-pending", equal)
	out.Probe("notifications", notifs)
	out.Fault("restart(component-checkpoint-in-place)", w.restarts)
	out.Shape = fmtHist(w.hist)
	out.NonTrivial = earlier > 0 || later > 0
	out.Sample = map[string]any{"ops": len(c.Ops), "history": fmtHist(w.hist[:min(12, len(w.hist))])}

	return out
}

func fmtHist(h []wkRec) string {
	s := ""
	for _, r := range h {
		switch r.kind {
		case "run":
			s += fmt.Sprintf("run@%d ", r.time)
		case "req":
			s += fmt.Sprintf("req@%d->%d ", r.time, r.target)
		default:
			s += fmt.Sprintf("notif@%d ", r.time)
		}
	}

	return s
}

func init() {
	kit.Register(kit.Spec[wakeCase]{
		ID:    "C13",
		Level: "exploration",
		Rule: "a real modeling.EventDrivenComponent on the real serial engine; scripted ScheduleWakeAt/ScheduleWakeNow requests (earlier, later, equal, repeated; from driver events of both classes and from inside processor runs), NotifyRecv/NotifyPortFree calls, real port deliveries and in-place component checkpoint save/load (also while idle); " +
			"oracle over the recorded history: every request for time t issued at history position s is followed by a processor run at a time <= t, every notification at time r by a run at time r; " +
			"distinct = hash of the history; non-trivial = a request arrived while an earlier or a later wakeup was pending",
		Assumptions: []string{"requests are never for the past, as the statement requires"},
		Real:        []string{"modeling.EventDrivenComponent", "timing.SerialEngine", "messaging.Port"},
		Stubs:       []string{"processor (harness script)", "driver events", "connection stub"},
		FaultKinds:  []string{"restart(component-checkpoint-in-place)"},
		Quick:       kit.Budget{Runs: 40000, WallS: 60},
		Thorough:    kit.Budget{Runs: 3000000, WallS: 600},
		Gen:         genWake,
		Exec:        execWake,
		Shrink: func(c wakeCase) []wakeCase {
			var out []wakeCase
			for _, l := range kit.ListShrinks(c.Ops) {
				out = append(out, wakeCase{Ops: l})
			}

			return out
		},
	})
}
