// Package eserial drives the real timing.SerialEngine with random handler
// programs and compares what it does with a small reference scheduler
// (properties C01 and C02).
package eserial

import (
	"fmt"
	"sort"
	"strings"

	"github.com/sarchlab/akita/v5/hooking"
	"github.com/sarchlab/akita/v5/timing"

	"verif/sim/kit"
)

// Child is one event scheduled by a handler: at now+Delta, in the primary or
// secondary class, to handler H, carrying tag Tag.
type Child struct {
	Delta     uint64 `json:"d"`
	Secondary bool   `json:"s,omitempty"`
	H         int    `json:"h"`
	Tag       int    `json:"t"`
}

// Program is a finite handler program: handling an event with tag g schedules
// Table[g] (in order). Initial is scheduled before Run (Delta = absolute time).
type Program struct {
	Handlers   int       `json:"handlers"`
	Initial    []Child   `json:"initial"`
	Table      [][]Child `json:"table"`
	Hooks      bool      `json:"hooks"`
	MaxEvents  int       `json:"max_events"`
	Boundaries []uint64  `json:"boundaries,omitempty"` // C02 only
}

type progEvent struct {
	time      timing.VTimeInPicoSec
	handler   string
	secondary bool
	tag       int
	ord       int // schedule ordinal (unique identity)
}

func (e *progEvent) Time() timing.VTimeInPicoSec { return e.time }
func (e *progEvent) HandlerID() string           { return e.handler }
func (e *progEvent) IsSecondary() bool           { return e.secondary }

// Rec is one handled event.
type Rec struct {
	Time      uint64
	Tag       int
	H         int
	Secondary bool
	Ord       int
}

func (r Rec) String() string {
	c := "P"
	if r.Secondary {
		c = "S"
	}

	return fmt.Sprintf("(t=%d %s tag=%d h=%d ord=%d)", r.Time, c, r.Tag, r.H, r.Ord)
}

// refRun is the reference scheduler: pending set ordered by time, then primary
// before secondary, then schedule order.
type refPending struct {
	Rec
}

func refRun(p *Program, upTo *uint64, st *refState) []Rec {
	var handled []Rec

	for {
		if len(st.pending) == 0 {
			return handled
		}

		best := 0

		for i := 1; i < len(st.pending); i++ {
			a, b := st.pending[i], st.pending[best]
			if a.Time != b.Time {
				if a.Time < b.Time {
					best = i
				}

				continue
			}

			if a.Secondary != b.Secondary {
				if !a.Secondary {
					best = i
				}

				continue
			}

			if a.Ord < b.Ord {
				best = i
			}
		}

		ev := st.pending[best]
		if upTo != nil && ev.Time > *upTo {
			return handled
		}

		st.pending = append(st.pending[:best], st.pending[best+1:]...)
		st.now = ev.Time
		handled = append(handled, ev.Rec)

		if ev.Tag >= 0 && ev.Tag < len(p.Table) {
			for _, c := range p.Table[ev.Tag] {
				if st.scheduled >= p.MaxEvents {
					break
				}

				if ev.Time+c.Delta < ev.Time {
					continue // there is no time after the largest one
				}

				st.pending = append(st.pending, refPending{Rec{
					Time: ev.Time + c.Delta, Tag: c.Tag, H: c.H,
					Secondary: c.Secondary, Ord: st.scheduled,
				}})
				st.scheduled++
			}
		}
	}
}

type refState struct {
	pending   []refPending
	scheduled int
	now       uint64
}

func newRefState(p *Program) *refState {
	st := &refState{}
	for _, c := range p.Initial {
		if st.scheduled >= p.MaxEvents {
			break
		}

		st.pending = append(st.pending, refPending{Rec{
			Time: c.Delta, Tag: c.Tag, H: c.H, Secondary: c.Secondary, Ord: st.scheduled,
		}})
		st.scheduled++
	}

	return st
}

// realRun is the system under test: the real SerialEngine with harness handlers.
type realRun struct {
	p         *Program
	eng       *timing.SerialEngine
	handled   []Rec
	scheduled int
	errs      []string
	stage     map[int]int // ord -> 0 none, 1 before-hook seen, 2 handled, 3 after-hook seen
	lastTime  uint64
	inHandler bool
}

type progHandler struct {
	r   *realRun
	idx int
}

func hname(i int) string { return fmt.Sprintf("H%d", i) }

func (h *progHandler) Handle(e timing.Event) error {
	r := h.r
	ev := e.(*progEvent)

	if r.inHandler {
		r.errs = append(r.errs, "reentrant handler call")
	}

	r.inHandler = true

	defer func() { r.inHandler = false }()

	now := uint64(r.eng.CurrentTime())
	if now != uint64(ev.time) {
		r.errs = append(r.errs, fmt.Sprintf("CurrentTime()=%d inside handler of event at %d", now, ev.time))
	}

	if uint64(ev.time) < r.lastTime {
		r.errs = append(r.errs, fmt.Sprintf("time went backwards: %d after %d", ev.time, r.lastTime))
	}

	r.lastTime = uint64(ev.time)

	if ev.handler != hname(h.idx) {
		r.errs = append(r.errs, fmt.Sprintf("event for %s dispatched to %s", ev.handler, hname(h.idx)))
	}

	if r.p.Hooks {
		if r.stage[ev.ord] != 1 {
			r.errs = append(r.errs, fmt.Sprintf("handler of ord=%d ran in hook stage %d (want 1: after exactly one BeforeEvent)", ev.ord, r.stage[ev.ord]))
		}

		r.stage[ev.ord] = 2
	} else {
		if r.stage[ev.ord] != 0 {
			r.errs = append(r.errs, fmt.Sprintf("event ord=%d handled more than once", ev.ord))
		}

		r.stage[ev.ord] = 2
	}

	r.handled = append(r.handled, Rec{
		Time: uint64(ev.time), Tag: ev.tag, H: h.idx, Secondary: ev.secondary, Ord: ev.ord,
	})

	if ev.tag >= 0 && ev.tag < len(r.p.Table) {
		for _, c := range r.p.Table[ev.tag] {
			if r.scheduled >= r.p.MaxEvents {
				break
			}

			if ev.time+timing.VTimeInPicoSec(c.Delta) < ev.time {
				continue // there is no time after the largest one
			}

			r.eng.Schedule(&progEvent{
				time:    ev.time + timing.VTimeInPicoSec(c.Delta),
				handler: hname(c.H), secondary: c.Secondary, tag: c.Tag, ord: r.scheduled,
			})
			r.scheduled++
		}
	}

	return nil
}

type hookFn func(ctx hooking.HookCtx)

func (f hookFn) Func(ctx hooking.HookCtx) { f(ctx) }

type hookBox struct{ f hookFn }

func (h *hookBox) Func(ctx hooking.HookCtx) { h.f(ctx) }

func newRealRun(p *Program) *realRun {
	r := &realRun{p: p, eng: timing.NewSerialEngine(), stage: map[int]int{}}
	for i := 0; i < p.Handlers; i++ {
		r.eng.RegisterHandler(hname(i), &progHandler{r: r, idx: i})
	}

	if p.Hooks {
		r.eng.AcceptHook(&hookBox{f: func(ctx hooking.HookCtx) {
			ev, ok := ctx.Item.(*progEvent)
			if !ok {
				return
			}

			switch ctx.Pos {
			case timing.HookPosBeforeEvent:
				if r.stage[ev.ord] != 0 {
					r.errs = append(r.errs, fmt.Sprintf("BeforeEvent of ord=%d in stage %d", ev.ord, r.stage[ev.ord]))
				}

				r.stage[ev.ord] = 1

				if uint64(r.eng.CurrentTime()) != uint64(ev.time) {
					r.errs = append(r.errs, "CurrentTime() in BeforeEvent differs from event time")
				}
			case timing.HookPosAfterEvent:
				if r.stage[ev.ord] != 2 {
					r.errs = append(r.errs, fmt.Sprintf("AfterEvent of ord=%d in stage %d", ev.ord, r.stage[ev.ord]))
				}

				r.stage[ev.ord] = 3
			}
		}})
	}

	for _, c := range p.Initial {
		if r.scheduled >= p.MaxEvents {
			break
		}

		r.eng.Schedule(&progEvent{
			time: timing.VTimeInPicoSec(c.Delta), handler: hname(c.H),
			secondary: c.Secondary, tag: c.Tag, ord: r.scheduled,
		})
		r.scheduled++
	}

	return r
}

var deltas = []uint64{0, 0, 0, 0, 1, 1, 2, 7, 333, 1000, 1000, 1_000_000}

// GenProgram draws a random handler program.
func GenProgram(r *kit.Rand, tier kit.Tier) Program {
	p := Program{Handlers: r.Range(1, 6), Hooks: r.Bool()}

	maxEv := 300
	if tier == kit.Thorough {
		maxEv = r.PickInt(300, 300, 2000, 20000)
	}

	p.MaxEvents = r.Range(5, maxEv)
	ntags := r.Range(1, 12)
	zeroBias := r.Range(0, 3) // how strongly same-instant chains are favoured

	child := func() Child {
		d := deltas[r.Intn(len(deltas))]
		if zeroBias > 0 && r.Chance(zeroBias, 4) {
			d = 0
		}

		return Child{Delta: d, Secondary: r.Chance(2, 5), H: r.Intn(p.Handlers), Tag: r.Intn(ntags + 1)}
	}

	for i := 0; i < ntags; i++ {
		n := r.Weighted(3, 4, 3, 1)

		var cs []Child
		for j := 0; j < n; j++ {
			cs = append(cs, child())
		}

		p.Table = append(p.Table, cs)
	}

	ni := r.Range(1, 8)
	for i := 0; i < ni; i++ {
		c := child()
		c.Delta = r.PickU64(0, 0, 1, 5, 5, 10, 1000, 1000)
		p.Initial = append(p.Initial, c)
	}

	// one program in eight also has events far in the future (a watchdog, an "end
	// of simulation" marker): half the time range away and at its very end
	if r.Chance(1, 8) {
		for i := 0; i < r.Range(1, 3); i++ {
			c := child()
			c.Delta = r.PickU64(1<<63, 1<<63+5, 1<<63-1, ^uint64(0)-1, ^uint64(0))
			p.Initial = append(p.Initial, c)
		}
	}

	return p
}

func shapeOf(h []Rec) (string, bool) {
	var sb strings.Builder

	cross := false

	for i, r := range h {
		var d uint64
		if i > 0 {
			d = r.Time - h[i-1].Time

			if d == 0 && r.Secondary != h[i-1].Secondary {
				cross = true
			}
		}

		c := byte('P')
		if r.Secondary {
			c = 'S'
		}

		fmt.Fprintf(&sb, "%d%c,", d, c)
	}

	return sb.String(), cross
}

func compare(oraclePrefix, id string, got, want []Rec) *kit.Violation {
	n := len(got)
	if len(want) < n {
		n = len(want)
	}

	for i := 0; i < n; i++ {
		if got[i] != want[i] {
			kind := "order"

			switch {
			case got[i].Time != want[i].Time:
				kind = "time-order"
			case got[i].Secondary != want[i].Secondary:
				kind = "phase-order"
			default:
				kind = "fifo-order"
			}

			return kit.Violate(oraclePrefix+"reference-scheduler", id+":"+kind,
				"handled event #%d is %v, reference scheduler says %v", i, got[i], want[i])
		}
	}

	if len(got) != len(want) {
		return kit.Violate(oraclePrefix+"reference-scheduler", id+":count",
			"engine handled %d events, reference %d", len(got), len(want))
	}

	return nil
}

func execC01(p Program, _ *kit.Env) kit.Outcome {
	var out kit.Outcome

	p.Boundaries = nil
	want := refRun(&p, nil, newRefState(&p))
	rr := newRealRun(&p)

	if err := rr.eng.Run(); err != nil {
		out.Violation = kit.Violate("run-error", "C01:run-error", "Run returned %v", err)
		return out
	}

	out.Events = uint64(len(rr.handled))
	if len(rr.handled) > 0 {
		out.SimTimePs = rr.handled[len(rr.handled)-1].Time
	}

	out.Shape, out.NonTrivial = shapeOf(rr.handled)
	if out.NonTrivial {
		out.Probe("same-instant-class-crossing", 1)
	}

	out.Sample = map[string]any{"handlers": p.Handlers, "events": len(rr.handled), "hooks": p.Hooks, "first": fmt.Sprint(head(rr.handled, 8))}

	if len(rr.errs) > 0 {
		out.Violation = kit.Violate("dispatch-monitor", "C01:monitor", "%s", rr.errs[0])
		return out
	}

	if v := compare("", "C01", rr.handled, want); v != nil {
		out.Violation = v
		return out
	}

	// exactly once: every scheduled ordinal handled once
	seen := map[int]int{}
	for _, r := range rr.handled {
		seen[r.Ord]++
	}

	for ord := 0; ord < rr.scheduled; ord++ {
		if seen[ord] != 1 {
			out.Violation = kit.Violate("exactly-once", "C01:exactly-once",
				"event ord=%d handled %d times", ord, seen[ord])
			return out
		}

		if p.Hooks && rr.stage[ord] != 3 {
			out.Violation = kit.Violate("dispatch-monitor", "C01:hooks",
				"event ord=%d ended in hook stage %d (want before,handle,after)", ord, rr.stage[ord])
			return out
		}
	}

	// Run returned only once no event remains: a second Run handles nothing.
	n := len(rr.handled)
	_ = rr.eng.Run()

	if len(rr.handled) != n {
		out.Violation = kit.Violate("run-completes", "C01:leftover",
			"Run returned with %d events still queued", len(rr.handled)-n)
	}

	return out
}

func head(r []Rec, n int) []Rec {
	if len(r) > n {
		return r[:n]
	}

	return r
}

func execC02(p Program, _ *kit.Env) kit.Outcome {
	var out kit.Outcome

	// single Run on the real engine is the baseline the statement names.
	pp := p
	single := newRealRun(&pp)
	_ = single.eng.Run()

	st := newRefState(&p)
	rr := newRealRun(&p)
	informative := 0

	for bi, b := range p.Boundaries {
		before := len(rr.handled)
		timeBefore := uint64(rr.eng.CurrentTime())

		if err := rr.eng.RunUntil(timing.VTimeInPicoSec(b)); err != nil {
			out.Violation = kit.Violate("run-error", "C02:run-error", "RunUntil returned %v", err)
			return out
		}

		bb := b
		want := refRun(&p, &bb, st)
		got := rr.handled[before:]

		if v := compare("rununtil-", "C02", got, want); v != nil {
			v.Detail = fmt.Sprintf("RunUntil #%d (t=%d): %s", bi, b, v.Detail)
			out.Violation = v

			return out
		}

		if len(want) > 0 && len(st.pending) > 0 {
			informative++
		}

		wantNow := timeBefore
		if len(want) > 0 {
			wantNow = want[len(want)-1].Time
		}

		if uint64(rr.eng.CurrentTime()) != wantNow {
			out.Violation = kit.Violate("rununtil-clock", "C02:clock",
				"after RunUntil #%d (t=%d) CurrentTime()=%d, want %d (time of last handled event)",
				bi, b, rr.eng.CurrentTime(), wantNow)

			return out
		}
	}

	before := len(rr.handled)
	_ = rr.eng.Run()
	want := refRun(&p, nil, st)

	if v := compare("final-run-", "C02", rr.handled[before:], want); v != nil {
		out.Violation = v
		return out
	}

	if v := compare("single-run-", "C02", rr.handled, single.handled); v != nil {
		v.Sig = "C02:differs-from-single-run"
		out.Violation = v

		return out
	}

	if len(rr.errs) > 0 {
		out.Violation = kit.Violate("dispatch-monitor", "C02:monitor", "%s", rr.errs[0])
		return out
	}

	out.Events = uint64(len(rr.handled) + len(single.handled))
	if len(rr.handled) > 0 {
		out.SimTimePs = rr.handled[len(rr.handled)-1].Time
	}

	sh, _ := shapeOf(rr.handled)
	out.Shape = fmt.Sprint(p.Boundaries) + sh
	out.NonTrivial = informative > 0
	out.Fault("rununtil-boundary", len(p.Boundaries))
	out.Probe("boundary-splits-run", informative)
	out.Sample = map[string]any{"boundaries": p.Boundaries, "events": len(rr.handled)}

	return out
}

func genC02(r *kit.Rand, tier kit.Tier) Program {
	p := GenProgram(r, tier)
	pp := p
	ref := refRun(&pp, nil, newRefState(&pp))

	var times []uint64
	for _, e := range ref {
		times = append(times, e.Time)
	}

	n := r.Range(1, 8)

	var bs []uint64

	for i := 0; i < n; i++ {
		var b uint64

		if len(times) > 0 {
			t := times[r.Intn(len(times))]

			switch r.Intn(6) {
			case 0:
				b = t
			case 1:
				b = t + 1
			case 2:
				if t > 0 {
					b = t - 1
				}
			case 3:
				b = t + uint64(r.Intn(500))
			case 4:
				b = times[len(times)-1] + uint64(r.Intn(3))*1000
			default:
				b = t
			}
		}

		if r.Chance(1, 10) {
			b = 0
		}

		bs = append(bs, b)
	}

	sort.Slice(bs, func(i, j int) bool { return bs[i] < bs[j] })

	if r.Chance(1, 3) && len(bs) > 0 { // repeats
		bs = append(bs, bs[len(bs)-1])
	}

	p.Boundaries = bs

	return p
}

func shrinkProgram(p Program) []Program {
	var out []Program

	for _, l := range kit.ListShrinks(p.Initial) {
		if len(l) == 0 {
			continue
		}

		q := p
		q.Initial = l
		out = append(out, q)
	}

	if p.MaxEvents > 2 {
		q := p
		q.MaxEvents = p.MaxEvents / 2
		out = append(out, q)
		q.MaxEvents = p.MaxEvents - 1
		out = append(out, q)
	}

	for i := range p.Table {
		for _, l := range kit.ListShrinks(p.Table[i]) {
			q := p
			q.Table = append([][]Child(nil), p.Table...)
			q.Table[i] = l
			out = append(out, q)
		}
	}

	for _, l := range kit.ListShrinks(p.Boundaries) {
		q := p
		q.Boundaries = l
		out = append(out, q)
	}

	if p.Hooks {
		q := p
		q.Hooks = false
		out = append(out, q)
	}

	return out
}

func init() {
	kit.Register(kit.Spec[Program]{
		ID:    "C01",
		Level: "exploration",
		Rule: "random handler programs (1-6 handlers, tag table -> children with deltas from {0,1,2,7,333,1000,1e6} ps, primary/secondary, " +
			"same-instant chains favoured) run on the real SerialEngine, with and without engine hooks, compared event by event with a reference scheduler; " +
			"distinct = hash of the (delta-time, class) pattern of the handled sequence; non-trivial = the handled sequence contains two consecutive same-instant events of different classes",
		Assumptions: []string{"handlers are harness code; events are scheduled only at non-past times, as the statement requires"},
		Real:        []string{"timing.SerialEngine", "timing event queues"},
		Stubs:       []string{"event handlers (harness programs)"},
		FaultKinds:  []string{},
		Quick:       kit.Budget{Runs: 30000, WallS: 60},
		Thorough:    kit.Budget{Runs: 3000000, WallS: 900},
		Gen:         GenProgram,
		Exec:        execC01,
		Shrink:      shrinkProgram,
	})
	kit.Register(kit.Spec[Program]{
		ID:    "C02",
		Level: "exploration",
		Rule: "C01 programs plus a non-decreasing list of 1-9 RunUntil boundaries drawn from {event times, t+-1, between, beyond the end, repeats, 0}; each RunUntil is compared with the " +
			"reference scheduler cut at the boundary, the clock is checked after each call and the concatenation is compared with a single Run of a second real engine; " +
			"distinct = hash of boundaries + handled pattern; non-trivial = at least one boundary stops the run with events handled before it and events still pending after it",
		Assumptions: []string{"boundaries are applied between RunUntil calls only; no external scheduling between calls"},
		Real:        []string{"timing.SerialEngine"},
		Stubs:       []string{"event handlers (harness programs)"},
		FaultKinds:  []string{"rununtil-boundary"},
		Quick:       kit.Budget{Runs: 30000, WallS: 60},
		Thorough:    kit.Budget{Runs: 2000000, WallS: 900},
		Gen:         genC02,
		Exec:        execC02,
		Shrink:      shrinkProgram,
	})
}
