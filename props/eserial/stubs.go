package eserial

import (
	"github.com/sarchlab/akita/v5/hooking"
	"github.com/sarchlab/akita/v5/messaging"
)

type hookCtx = hooking.HookCtx
type hookIface = hooking.Hook

// wkStubConn is a connection that ignores every notification.
type wkStubConn struct{ hooking.HookableBase }

func (c *wkStubConn) Name() string                     { return "StubConn" }
func (c *wkStubConn) PlugIn(p messaging.Port)          { p.SetConnection(c) }
func (c *wkStubConn) Unplug(_ messaging.Port)          {}
func (c *wkStubConn) NotifyAvailable(_ messaging.Port) {}
func (c *wkStubConn) NotifySend()                      {}
