// Package tracelog records what a simulation does in a form that can be compared
// between executions: every handled engine event (time, handler, concrete type,
// payload including its ID) and every message at every port hook position.
package tracelog

import (
	"fmt"
	"sort"

	"github.com/sarchlab/akita/v5/hooking"
	"github.com/sarchlab/akita/v5/messaging"
	"github.com/sarchlab/akita/v5/timing"
)

// Log is one execution's record.
type Log struct {
	Lines []string
}

type engHook struct{ l *Log }

func (h engHook) Func(ctx hooking.HookCtx) {
	if ctx.Pos != timing.HookPosBeforeEvent {
		return
	}

	e := ctx.Item.(timing.Event)
	h.l.Lines = append(h.l.Lines, fmt.Sprintf("E %d %s %T %v", e.Time(), e.HandlerID(), e, e))
}

type portHook struct {
	l    *Log
	name string
}

func (h portHook) Func(ctx hooking.HookCtx) {
	m, ok := ctx.Item.(messaging.Msg)
	if !ok {
		return
	}

	h.l.Lines = append(h.l.Lines, fmt.Sprintf("M %s %s %T %+v", h.name, ctx.Pos.Name, m, m))
}

// Attach installs the recorder on an engine and a set of ports (visited in name order).
func (l *Log) Attach(eng hooking.Hookable, ports map[string]messaging.Port) {
	eng.AcceptHook(engHook{l})

	names := make([]string, 0, len(ports))
	for n := range ports {
		names = append(names, n)
	}

	sort.Strings(names)

	for _, n := range names {
		ports[n].AcceptHook(portHook{l, n})
	}
}

// FirstDiff describes the first difference between two logs ("" when equal).
func FirstDiff(a, b []string) string {
	n := min(len(a), len(b))
	for i := 0; i < n; i++ {
		if a[i] != b[i] {
			return fmt.Sprintf("record #%d: %q vs %q", i, clip(a[i]), clip(b[i]))
		}
	}

	if len(a) != len(b) {
		return fmt.Sprintf("%d records vs %d", len(a), len(b))
	}

	return ""
}

func clip(s string) string {
	if len(s) > 260 {
		return s[:260] + "…"
	}

	return s
}
