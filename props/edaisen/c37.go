// Package edaisen checks the trace server's assistant tools: the data-query
// tool against a real SQLite trace file (C37) and the outbound LLM guard
// against a scripted hostile resolver (C38).
package edaisen

import (
	"context"
	"crypto/sha256"
	"database/sql"
	"fmt"
	"os"
	"path/filepath"
	"sort"
	"strings"
	"time"

	_ "github.com/mattn/go-sqlite3"
	"github.com/sarchlab/akita/v5/daisen2"

	"verif/sim/kit"
)

// Q is one data-query call.
type Q struct {
	SQL    string `json:"sql"`
	Cancel int    `json:"cancel"` // 0 none; -1 context already cancelled; >0 cancel after that many milliseconds
}

type C37Case struct {
	Qs       []Q  `json:"qs"`
	ReadOnly bool `json:"read_only,omitempty"` // the live server's flavour: the trace is opened with InitReadOnly
}

const heavy = "WITH RECURSIVE c(x) AS (SELECT 1 UNION ALL SELECT x+1 FROM c WHERE x < 30000000) SELECT count(*) FROM c"

func queryPool(dir string) []string {
	evil := filepath.Join(dir, "evil.db")

	return []string{
		"SELECT count(*) FROM trace",
		"SELECT Kind, count(*), avg(EndTime-StartTime) FROM trace GROUP BY Kind",
		"SELECT t.ID, l.Locale FROM trace t JOIN location l ON t.Location = l.ID WHERE t.ID < 20",
		"SELECT * FROM trace",
		"SELECT * FROM trace LIMIT 100000",
		"SELECT * FROM trace -- limit 5",
		"select * from trace /* LIMIT 1 */",
		"WITH RECURSIVE c(x) AS (SELECT 1 UNION ALL SELECT x+1 FROM c WHERE x < 5000) SELECT x, x*x FROM c",
		"SELECT hex(zeroblob(100000))",
		"SELECT zeroblob(3000000)",
		"SELECT printf('%.*c', 70000, 'x'), ID FROM trace",
		"SELECT What || ',\"' || char(10) || What FROM trace LIMIT 3",
		"DELETE FROM trace",
		"WITH x AS (SELECT 1) DELETE FROM trace RETURNING ID",
		"WITH x AS (SELECT 1) UPDATE trace SET Kind = 'pwned' RETURNING ID",
		"WITH x AS (SELECT 1) INSERT INTO location VALUES (9999, 'pwned') RETURNING ID",
		"WITH x AS (SELECT 1) INSERT INTO trace SELECT * FROM trace RETURNING ID",
		"WITH x AS (SELECT 1) REPLACE INTO location VALUES (1, 'pwned') RETURNING *",
		"WITH x AS (SELECT 1 LIMIT 1) DELETE FROM trace RETURNING ID",
		"WITH x AS (SELECT 1) DELETE FROM trace RETURNING ID -- limit 1",
		"WITH x AS (SELECT 1 LIMIT 1) UPDATE trace SET Kind = 'pwned' RETURNING ID",
		"WITH x AS (SELECT 1 LIMIT 1) INSERT INTO location VALUES (9999, 'pwned') RETURNING ID",
		"WITH x AS (SELECT 1) INSERT INTO location VALUES (9999, 'limit 1') RETURNING ID",
		"WITH x AS (SELECT 1 LIMIT 1) REPLACE INTO location VALUES (1, 'pwned') RETURNING *",
		"WITH x AS (SELECT 1 LIMIT 1) DELETE FROM milestone WHERE ID IN (SELECT ID FROM milestone LIMIT 3) RETURNING 1",
		"SELECT '--' AS note LIMIT 1; PRAGMA query_only = OFF; DELETE FROM trace WHERE ID = 1",
		"SELECT '/*' AS a LIMIT 1; VACUUM INTO '" + evil + "' --*/",
		"SELECT \"--\" LIMIT 1; PRAGMA query_only = OFF; UPDATE trace SET Kind = 'pwned'",
		"SELECT '-- ' || What FROM trace LIMIT 1; PRAGMA query_only=0; INSERT INTO location VALUES (77, 'pwned')",
		"SELECT 1 LIMIT 1 /* ; */ ; PRAGMA query_only = OFF ; DROP TABLE milestone",
		"SELECT 'it''s --' LIMIT 1; PRAGMA query_only = OFF; DELETE FROM tag; DELETE FROM trace",
		"SELECT 1; DROP TABLE trace",
		"SELECT 1 --\n; DELETE FROM trace",
		"/* c */ SELECT 1",
		"-- c\nSELECT 1",
		"(SELECT 1)",
		"((((SELECT 2))))",
		"PRAGMA query_only = OFF",
		"PRAGMA journal_mode = DELETE",
		"SELECT * FROM pragma_table_info('trace')",
		"SELECT * FROM pragma_journal_mode",
		"WITH p AS (SELECT * FROM pragma_query_only) SELECT * FROM p",
		"SELECT name, sql FROM sqlite_master",
		"ATTACH DATABASE '" + evil + "' AS e",
		"VACUUM INTO '" + evil + "'",
		"VACUUM",
		"WITH x AS (SELECT 1) SELECT 1 FROM x WHERE (SELECT count(*) FROM pragma_database_list) > 0",
		"SELECT load_extension('" + evil + "')",
		"SELECT writefile('" + evil + "', 'x')",
		"CREATE TABLE pwned(x)",
		"WITH x AS (SELECT 1) SELECT * FROM x LIMIT 5; CREATE TABLE pwned(x)",
		"SELECT ';'",
		"SELECT 1 WHERE 'a;b' = 'a;b'",
		"",
		";",
		"SELECT",
		"SELECT * FROM nosuchtable",
		"WITH",
		"SELECTx",
		"WITH RECURSIVE c(x) AS (SELECT 1 UNION ALL SELECT x+1 FROM c) SELECT x FROM c",
		heavy,
		"BEGIN",
		"SELECT 1 UNION ALL SELECT 2 LIMIT 1",
		"EXPLAIN SELECT * FROM trace",
		"REINDEX",
		"ANALYZE",
		"SELECT sqlite_version(), random()",
		"SELECT * FROM trace ORDER BY random()",
		"WITH t AS (SELECT * FROM trace) SELECT * FROM t, t AS u LIMIT 2000000",
		// statements that start like a read and write all the same
		"SELECT * FROM pragma_optimize",
		"SELECT * FROM pragma_wal_checkpoint('TRUNCATE')",
		"SELECT * FROM pragma_incremental_vacuum(10)",
		// one row that alone is larger than the byte cap (40 cells of 4 KB), first or later
		"SELECT " + strings.Repeat("hex(zeroblob(2048)), ", 39) + "hex(zeroblob(2048))",
		"SELECT " + strings.Repeat("hex(zeroblob(2048)), ", 39) + "ID FROM trace",
		"SELECT 1, 2 UNION ALL SELECT hex(zeroblob(40000)), hex(zeroblob(40000))",
		"SELECT " + strings.Repeat("printf('%.*c', 3000, 'y'), ", 30) + "1",
	}
}

func genC37(r *kit.Rand, tier kit.Tier) C37Case {
	pool := queryPool("@DIR@")
	n := r.Range(1, 4)

	if tier == kit.Thorough {
		n = r.Range(1, 10)
	}

	c := C37Case{ReadOnly: r.Chance(1, 3)}

	for i := 0; i < n; i++ {
		q := Q{SQL: pool[r.Intn(len(pool))]}

		switch r.Intn(6) {
		case 0:
			q.Cancel = -1
		case 1:
			q.Cancel = r.PickInt(1, 5, 20, 60)
			if r.Chance(2, 3) {
				q.SQL = heavy // something that is still running when the cancellation comes
			}
		}

		c.Qs = append(c.Qs, q)
	}

	return c
}

// makeTrace writes a small trace database.
func makeTrace(path string) {
	db, err := sql.Open("sqlite3", path)
	if err != nil {
		panic(kit.HarnessError("cannot create trace database: " + err.Error()))
	}

	defer db.Close()

	stmts := []string{
		"CREATE TABLE trace (ID, ParentID, Kind, What, Location, StartTime, EndTime)",
		"CREATE TABLE location (ID, Locale)",
		"CREATE TABLE milestone (ID, TaskID, Time, Kind, What)",
		"CREATE TABLE tag (ID, TaskID, Time, What)",
		"CREATE TABLE \"daisen$segments\" (StartTime, EndTime)",
		"INSERT INTO \"daisen$segments\" VALUES (0, 1e9)",
	}

	for i := 1; i <= 6; i++ {
		stmts = append(stmts, fmt.Sprintf("INSERT INTO location VALUES (%d, 'GPU[%d].Comp,with comma')", i, i))
	}

	for _, s := range stmts {
		if _, err := db.Exec(s); err != nil {
			panic(kit.HarnessError(err.Error()))
		}
	}

	tx, _ := db.Begin()

	for i := 1; i <= 1500; i++ {
		_, _ = tx.Exec("INSERT INTO trace VALUES (?,?,?,?,?,?,?)", i, i/2, []string{"req_in", "req_out", "pipeline"}[i%3], fmt.Sprintf("What%d", i%7), 1+i%6, float64(i*10), float64(i*10+7))

		if i%5 == 0 {
			_, _ = tx.Exec("INSERT INTO milestone VALUES (?,?,?,?,?)", 100000+i, i, float64(i*10+1), "queue", "port")
		}
	}

	if err := tx.Commit(); err != nil {
		panic(kit.HarnessError(err.Error()))
	}
}

// dump renders the logical content of the database through a connection of its own.
func dump(path string) string {
	db, err := sql.Open("sqlite3", "file:"+path+"?mode=ro")
	if err != nil {
		return "open: " + err.Error()
	}

	defer db.Close()

	h := sha256.New()

	for _, q := range []string{"SELECT type, name, tbl_name, sql FROM sqlite_master ORDER BY name", "SELECT * FROM trace ORDER BY ID", "SELECT * FROM location ORDER BY ID", "SELECT * FROM milestone ORDER BY ID", "SELECT * FROM tag ORDER BY ID", "SELECT * FROM \"daisen$segments\""} {
		rows, err := db.Query(q)
		if err != nil {
			fmt.Fprintf(h, "ERR %s: %v\n", q, err)
			continue
		}

		cols, _ := rows.Columns()

		for rows.Next() {
			vals := make([]any, len(cols))
			ptrs := make([]any, len(cols))

			for i := range vals {
				ptrs[i] = &vals[i]
			}

			_ = rows.Scan(ptrs...)
			fmt.Fprintf(h, "%v\n", vals)
		}

		rows.Close()
	}

	return fmt.Sprintf("%x", h.Sum(nil))
}

func listDir(dir string) string {
	es, _ := os.ReadDir(dir)

	var names []string
	for _, e := range es {
		names = append(names, e.Name())
	}

	sort.Strings(names)

	return strings.Join(names, " ")
}

var caseSeq int

func execC37(c C37Case, env *kit.Env) kit.Outcome {
	var out kit.Outcome

	caseSeq++
	dir := filepath.Join("/dev/shm", "verif-"+filepath.Base(env.Scratch), fmt.Sprintf("c37-%d", caseSeq))

	if err := os.MkdirAll(dir, 0o755); err != nil {
		panic(kit.HarnessError(err.Error()))
	}

	defer os.RemoveAll(dir)

	path := filepath.Join(dir, "trace.sqlite3")
	makeTrace(path)

	rowCap, byteCap := daisen2.VerifDataQueryCaps()
	tr := daisen2.VerifOpenTrace(path)
	if c.ReadOnly {
		// the writable open above has put the file into WAL mode, as the tracer of a
		// running simulation does; the live server then opens it read-only
		tr.Close()
		tr = daisen2.VerifOpenTraceReadOnly(path)
	}

	defer tr.Close()

	// touch the pool once so that the WAL side files exist before the baseline
	var n int
	_ = tr.DB().QueryRow("SELECT count(*) FROM trace").Scan(&n)

	baseDump, baseDir := dump(path), listDir(dir)
	cancels, refused := 0, 0

	for qi, q := range c.Qs {
		sqlText := strings.ReplaceAll(q.SQL, "@DIR@", dir)
		ctx, cancel := context.WithCancel(context.Background())

		switch {
		case q.Cancel < 0:
			cancel()
			cancels++
		case q.Cancel > 0:
			time.AfterFunc(time.Duration(q.Cancel)*time.Millisecond, cancel)
			cancels++
		}

		res, err := tr.DataQuery(ctx, sqlText)
		cancel()

		if err != nil {
			refused++
		}

		what := fmt.Sprintf("after query #%d %q (cancel=%d, error=%v)", qi, clip(sqlText, 120), q.Cancel, err != nil)

		if d := dump(path); d != baseDump {
			out.Violation = kit.Violate("query-tool", "C37:trace-content-changed", "%s the content of the trace database differs from before", what)
			return out
		}

		if l := listDir(dir); l != baseDir {
			out.Violation = kit.Violate("query-tool", "C37:file-created", "%s the directory holds [%s], before it held [%s]", what, l, baseDir)
			return out
		}

		if err == nil {
			lines := strings.Count(res, "\n")
			if rows := lines - 2; rows > rowCap {
				out.Violation = kit.Violate("query-tool", "C37:row-cap-exceeded", "%s the result has %d data rows, the documented cap is %d", what, rows, rowCap)
				return out
			}

			if len(res) > byteCap+256 {
				out.Violation = kit.Violate("query-tool", "C37:byte-cap-exceeded", "%s the result is %d bytes long, the documented cap is %d", what, len(res), byteCap)
				return out
			}
		}

		// the server's own pool: no connection may be left read-only, and the
		// server's own write path must still work
		var held []*sql.Conn

		for k := 0; k < 3; k++ {
			cn, cerr := tr.DB().Conn(context.Background())
			if cerr != nil {
				out.Violation = kit.Violate("query-tool", "C37:pool-unusable", "%s the server's pool cannot hand out a connection: %v", what, cerr)
				break
			}

			held = append(held, cn)

			var ro int
			if perr := cn.QueryRowContext(context.Background(), "PRAGMA query_only").Scan(&ro); perr != nil || ro != 0 {
				out.Violation = kit.Violate("query-tool", "C37:pooled-connection-left-read-only", "%s a connection of the server's pool is left with PRAGMA query_only=%d (err %v): the server's own writes (index builds) fail on it", what, ro, perr)
				break
			}
		}

		for _, cn := range held {
			cn.Close()
		}

		if out.Violation != nil {
			return out
		}
	}

	out.Steps = uint64(len(c.Qs))
	out.Fault("query-cancelled", cancels)
	out.Probe("queries-refused-or-failed", refused)
	out.Probe("queries-answered", len(c.Qs)-refused)
	out.NonTrivial = len(c.Qs) >= 1
	out.Shape = fmt.Sprint(c.ReadOnly, c.Qs)
	out.Sample = map[string]any{"queries": len(c.Qs), "refused": refused, "cancelled": cancels, "read_only": c.ReadOnly}

	if c.ReadOnly {
		out.Probe("read-only-server-flavour", 1)
		return out // a read-only server builds no indexes
	}

	// the server's own write path end to end
	tr.EnsureIndex(context.Background(), "CREATE INDEX IF NOT EXISTS verif_idx_kind ON trace(Kind)")

	var one int
	if err := tr.DB().QueryRow("SELECT 1 FROM sqlite_master WHERE type='index' AND name='verif_idx_kind'").Scan(&one); err != nil {
		out.Violation = kit.Violate("query-tool", "C37:server-write-fails-afterwards", "after the queries the server's own index build did not take effect: %v", err)
		return out
	}

	out.Steps = uint64(len(c.Qs))
	out.Fault("query-cancelled", cancels)
	out.Probe("queries-refused-or-failed", refused)
	out.Probe("queries-answered", len(c.Qs)-refused)
	out.NonTrivial = len(c.Qs) >= 1
	out.Shape = fmt.Sprint(c.Qs)
	out.Sample = map[string]any{"queries": len(c.Qs), "refused": refused, "cancelled": cancels}

	return out
}

func clip(s string, n int) string {
	if len(s) > n {
		return s[:n] + "…"
	}

	return s
}

func init() {
	kit.Register(kit.Spec[C37Case]{
		ID: "C37", Level: "exploration",
		Rule:        "the real data_query tool (through the verif shim) on a real SQLite trace file opened with the replay server's writable WAL pool; sequences of 1-10 queries drawn from a corpus of benign, oversized (rows, cells, cross joins), write-smuggling (CTE + DELETE/UPDATE/INSERT/REPLACE ... RETURNING), multi-statement, comment, pragma, ATTACH/VACUUM INTO/load_extension and malformed texts, each with a live, already-cancelled or cancelled-after-1..60ms context; after every query the logical content of the database, the directory listing, the result's row and byte counts and the read-only flag of three simultaneously held pool connections are checked, and at the end the server's own index build must still work; distinct = query sequence; non-trivial = >= 1 query",
		Assumptions: []string{"timed cancellations land at a point that depends on real time: the oracle holds wherever they land, but a replay may need several attempts to land in the same window (ReplayTries)", "the corpus is a fixed list of attack shapes composed by the generator, not an SQL grammar"},
		Real:        []string{"daisen2/internal/httpapi/agentloop.go (runDataQuery, sanitizeReadonlySQL, formatRows)", "SQLiteTraceReader pool, ensureIndex", "mattn/go-sqlite3 on a real file"},
		Stubs:       []string{"the LLM that would call the tool"},
		FaultKinds:  []string{"query-cancelled"},
		Quick:       kit.Budget{Runs: 300, WallS: 120, CaseS: 120},
		Thorough:    kit.Budget{Runs: 30000, WallS: 1200, CaseS: 300},
		ReplayTries: 6,
		Gen:         genC37, Exec: execC37,
		Shrink: func(c C37Case) []C37Case {
			var out []C37Case
			for _, l := range kit.ListShrinks(c.Qs) {
				if len(l) > 0 {
					out = append(out, C37Case{Qs: l})
				}
			}

			return out
		},
	})
}
