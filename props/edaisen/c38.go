package edaisen

import (
	"context"
	"errors"
	"fmt"
	"net"
	"net/http"
	"net/netip"
	"net/url"
	"os"
	"strings"
	"sync"
	"time"

	"github.com/sarchlab/akita/v5/daisen2"

	"verif/sim/kit"
)

// Host is a host as it appears in a URL: an IP literal, or a name with scripted
// DNS answers per lookup round.
type Host struct {
	Literal string     `json:"literal,omitempty"` // e.g. "127.0.0.1" or "[::1]"
	Name    string     `json:"name,omitempty"`
	Rounds  [][]string `json:"rounds,omitempty"`
}

// G is one guarded operation.
type G struct {
	Op   string `json:"op"` // guard dial get redirect
	Host int    `json:"host"`
	TLS  bool   `json:"tls,omitempty"` // https endpoint
}

type C38Case struct {
	Hosts []Host `json:"hosts"`
	Ops   []G    `json:"ops"`
}

var internalAddrs = []string{"127.0.0.1", "127.0.0.2", "127.255.255.254", "::1", "0.0.0.0", "::", "10.1.2.3", "10.255.255.255", "172.16.0.1", "172.31.255.255", "192.168.1.1", "169.254.169.254", "169.254.0.1", "fe80::1", "febf::1", "fc00::1", "fd12:3456::1", "::ffff:127.0.0.1", "::ffff:10.0.0.1", "::ffff:169.254.169.254", "::ffff:192.168.0.1", "::ffff:0.0.0.0", "224.0.0.1", "ff02::1"}
var publicAddrs = []string{"8.8.8.8", "93.184.216.34", "172.32.0.1", "172.15.255.255", "11.0.0.1", "192.169.0.1", "169.253.0.1", "2001:4860:4860::8888", "2606:4700::1111", "::ffff:8.8.8.8", "fec0::1"}

// internal is the reference classification, written with net/netip.
func internal(a netip.Addr) bool {
	a = a.Unmap()
	return a.IsLoopback() || a.IsPrivate() || a.IsUnspecified() || a.IsLinkLocalUnicast() || a.IsLinkLocalMulticast()
}

func pick(r *kit.Rand, l []string) string { return l[r.Intn(len(l))] }

func genC38(r *kit.Rand, tier kit.Tier) C38Case {
	var c C38Case

	odd := []string{"127.1", "0x7f.0.0.1", "2130706433", "017700000001", "0177.0.0.1", "localhost.verif-test", "metadata.verif-test"}
	nh := r.Range(1, 4)

	for i := 0; i < nh; i++ {
		switch r.Intn(5) {
		case 0: // literal
			pool := internalAddrs
			if r.Chance(1, 3) {
				pool = publicAddrs
			}

			a := pick(r, pool)
			if strings.Contains(a, ":") {
				a = "[" + a + "]"
			}

			c.Hosts = append(c.Hosts, Host{Literal: a})
		case 1: // a name that a libc-style resolver would turn into an internal address
			c.Hosts = append(c.Hosts, Host{Name: odd[r.Intn(len(odd))], Rounds: [][]string{{pick(r, internalAddrs)}}})
		default:
			h := Host{Name: fmt.Sprintf("h%d.verif-test", i)}

			nr := r.Range(1, 3)
			rebindToLoopback := r.Chance(1, 3)

			for k := 0; k < nr; k++ {
				var round []string

				switch r.Intn(5) {
				case 4:
					// several public addresses (the dialer may treat multi-address hosts
					// differently); what follows is often a rebind to loopback
					round = []string{pick(r, publicAddrs), pick(r, publicAddrs)}
					if r.Chance(1, 2) {
						round = append(round, pick(r, publicAddrs))
					}
				case 0:
					round = []string{pick(r, publicAddrs)}
				case 1:
					round = []string{pick(r, internalAddrs)}
				case 2:
					round = []string{pick(r, publicAddrs), pick(r, internalAddrs)}
				default:
					round = []string{pick(r, publicAddrs), pick(r, publicAddrs), pick(r, internalAddrs), pick(r, publicAddrs)}
				}

				if rebindToLoopback && k == nr-1 && k > 0 {
					round = []string{[]string{"127.0.0.1", "::1", "::ffff:127.0.0.1"}[r.Intn(3)]}
				}

				h.Rounds = append(h.Rounds, round)
			}

			// a resolver fault (SERVFAIL: a temporary failure to the Go resolver) in
			// place of one answer, most usefully right before the rebind
			if r.Chance(1, 4) {
				at := r.Intn(len(h.Rounds) + 1)
				if rebindToLoopback && len(h.Rounds) > 1 {
					at = len(h.Rounds) - 1
				}

				h.Rounds = append(h.Rounds[:at], append([][]string{{servfailRound}}, h.Rounds[at:]...)...)
			}

			c.Hosts = append(c.Hosts, h)
		}
	}

	ops := []string{"guard", "dial", "get", "redirect", "dial", "guard"}
	n := r.Range(1, 5)

	if tier == kit.Thorough {
		n = r.Range(1, 10)
	}

	for i := 0; i < n; i++ {
		c.Ops = append(c.Ops, G{Op: ops[r.Intn(len(ops))], Host: r.Intn(len(c.Hosts)), TLS: r.Chance(1, 3)})
	}

	return c
}

const servfailRound = "!servfail"

type trap struct {
	mu   sync.Mutex
	hits []string
	ls   []net.Listener
	port int
}

var (
	trapOnce sync.Once
	theTrap  *trap
)

// startTrap listens on loopback: any connection it accepts is an outbound
// connection that reached an internal address.
func startTrap() *trap {
	trapOnce.Do(func() {
		t := &trap{}

		l4, err := net.Listen("tcp4", "127.0.0.1:0")
		if err != nil {
			panic(err)
		}

		t.port = l4.Addr().(*net.TCPAddr).Port
		t.ls = append(t.ls, l4)

		if l6, err := net.Listen("tcp6", fmt.Sprintf("[::1]:%d", t.port)); err == nil {
			t.ls = append(t.ls, l6)
		}

		// 127.0.0.2 etc. are loopback too on Linux
		for _, l := range t.ls {
			l := l

			go func() {
				for {
					c, err := l.Accept()
					if err != nil {
						return
					}

					t.mu.Lock()
					t.hits = append(t.hits, c.LocalAddr().String()+"<-"+c.RemoteAddr().String())
					t.mu.Unlock()
					c.Close()
				}
			}()
		}

		theTrap = t
	})

	return theTrap
}

func (t *trap) take() []string {
	t.mu.Lock()
	defer t.mu.Unlock()

	h := t.hits
	t.hits = nil

	return h
}

func execC38(c C38Case, _ *kit.Env) kit.Outcome {
	var out kit.Outcome

	for _, k := range []string{"DAISEN_ALLOW_PRIVATE_LLM_URL", "HTTPS_PROXY", "https_proxy", "HTTP_PROXY", "http_proxy", "ALL_PROXY", "all_proxy", "NO_PROXY", "no_proxy"} {
		os.Unsetenv(k)
	}

	dns := startDNS()
	tp := startTrap()
	dns.reset()
	tp.take()

	for _, h := range c.Hosts {
		if h.Name == "" {
			continue
		}

		var rounds [][]netip.Addr

		for _, rd := range h.Rounds {
			var l []netip.Addr
			for _, a := range rd {
				if a == servfailRound {
					l = []netip.Addr{{}} // a resolver fault instead of an answer
					break
				}

				l = append(l, netip.MustParseAddr(a))
			}

			rounds = append(rounds, l)
		}

		dns.set(h.Name, rounds)
	}

	// what the next lookup of the host will be answered with
	nextAnswers := func(h Host) []netip.Addr {
		if h.Literal != "" {
			return []netip.Addr{netip.MustParseAddr(strings.Trim(h.Literal, "[]"))}
		}

		k := dns.lookups(h.Name)
		if k >= len(h.Rounds) {
			k = len(h.Rounds) - 1
		}

		var l []netip.Addr
		for _, a := range h.Rounds[k] {
			if a == servfailRound {
				return nil
			}

			l = append(l, netip.MustParseAddr(a))
		}

		return l
	}

	anyInternal := func(l []netip.Addr) (netip.Addr, bool) {
		for _, a := range l {
			if internal(a) {
				return a, true
			}
		}

		return netip.Addr{}, false
	}

	hostText := func(h Host) string {
		if h.Literal != "" {
			return h.Literal
		}

		return h.Name
	}

	refusals, rebinds := 0, 0

	for oi, op := range c.Ops {
		h := c.Hosts[op.Host]
		answers := nextAnswers(h)
		bad, hasInternal := anyInternal(answers)
		scheme := "http"
		if op.TLS {
			scheme = "https"
		}

		target := fmt.Sprintf("%s://%s:%d/v1/chat/completions", scheme, hostText(h), tp.port)
		what := fmt.Sprintf("op #%d %s %s (this resolution answers %v)", oi, op.Op, hostText(h), answers)

		if h.Name != "" && dns.lookups(h.Name) > 0 && len(h.Rounds) > 1 {
			rebinds++
		}

		var err error

		switch op.Op {
		case "guard":
			err = daisen2.VerifGuardLLMURL(target)
		case "redirect":
			req, _ := http.NewRequest(http.MethodGet, target, nil)
			first, _ := http.NewRequest(http.MethodGet, "http://origin.example/", nil)
			err = daisen2.VerifLLMClient().CheckRedirect(req, []*http.Request{first})
		case "dial":
			ctx, cancel := context.WithTimeout(context.Background(), 3*time.Second)

			var conn net.Conn

			conn, err = daisen2.VerifGuardedDial(ctx, "tcp", net.JoinHostPort(strings.Trim(hostText(h), "[]"), fmt.Sprint(tp.port)))
			cancel()

			if conn != nil {
				conn.Close()
			}
		case "get":
			ctx, cancel := context.WithTimeout(context.Background(), 3*time.Second)
			req, _ := http.NewRequestWithContext(ctx, http.MethodGet, target, nil)

			var rsp *http.Response

			rsp, err = daisen2.VerifLLMClient().Do(req)
			cancel()

			if rsp != nil {
				rsp.Body.Close()
			}

			daisen2.VerifLLMClient().CloseIdleConnections()
		}

		time.Sleep(2 * time.Millisecond) // let the trap's accept loop record a connection, if any

		if hits := tp.take(); len(hits) > 0 {
			out.Violation = kit.Violate("llm-guard", "C38:connected-to-internal-address["+op.Op+"]", "%s: an outbound connection reached the loopback listener (%v)", what, hits)
			return out
		}

		if hasInternal {
			if err == nil {
				out.Violation = kit.Violate("llm-guard", "C38:internal-destination-accepted["+op.Op+"]", "%s: accepted although %v is a loopback/private/link-local/unspecified address", what, bad)
				return out
			}

			// refused: but not by way of a connection attempt to an internal address
			var oe *net.OpError
			if errors.As(err, &oe) && oe.Op == "dial" && oe.Addr != nil {
				if ap, perr := netip.ParseAddrPort(oe.Addr.String()); perr == nil && internal(ap.Addr()) {
					out.Violation = kit.Violate("llm-guard", "C38:dialed-internal-address["+op.Op+"]", "%s: the error is a failed connection attempt to %s: the guard let the dial through", what, oe.Addr)
					return out
				}
			}

			refusals++
		} else if err != nil {
			var ue *url.Error
			_ = errors.As(err, &ue)
		}
	}

	out.Steps = uint64(len(c.Ops))
	out.Fault("dns-answer-changes-between-lookups", rebinds)

	fails := 0
	for _, h := range c.Hosts {
		for k, rd := range h.Rounds {
			if len(rd) == 1 && rd[0] == servfailRound && h.Name != "" && dns.lookups(h.Name) > k {
				fails++
			}
		}
	}

	out.Fault("dns-servfail", fails)
	out.Probe("internal-destinations-refused", refusals)
	out.Probe("dns-queries-served", dns.Queries)
	out.NonTrivial = refusals >= 1
	out.Shape = fmt.Sprint(c)
	out.Sample = map[string]any{"hosts": len(c.Hosts), "ops": len(c.Ops), "refused": refusals}

	return out
}

func init() {
	kit.Register(kit.Spec[C38Case]{
		ID: "C38", Level: "exploration",
		Rule: "the real URL guard, guarded dialer, guarded HTTP client and its redirect check (through the verif shim) with the process resolver pointed at a scripted DNS server: hosts are IP literals of every internal class (loopback, private, link-local, unspecified, IPv4-mapped IPv6, link-local multicast) and of public look-alikes, names whose answers are public, internal or mixed, names that change their answer between lookups (rebinding), and numeric-looking names that a libc resolver would map to loopback; operation sequences of guard / dial / GET / redirect-check; " +
			"whenever the resolution used by an operation contains an internal address (classified independently with net/netip) the operation must fail, the failure must not be a connection attempt to an internal address, and the loopback listeners on the target port must never accept a connection; distinct = hosts and operations; non-trivial = >= 1 refusal",
		Assumptions: []string{"the process resolver is Go's pure resolver pointed at the scripted server (the guard's own calls to net.LookupIP / net.DefaultResolver are unchanged)", "public addresses are unreachable in the sandbox, so a permitted dial fails with a network error; only refusals are judged", "DAISEN_ALLOW_PRIVATE_LLM_URL and the proxy variables are unset"},
		Real:        []string{"daisen2/internal/httpapi/chat.go (guardLLMURL, guardedDialContext, guardedLLMClient, CheckRedirect)", "net/http transport", "Go resolver"},
		Stubs:       []string{"scripted DNS server on a loopback UDP socket", "loopback TCP listeners as connection traps"},
		FaultKinds:  []string{"dns-answer-changes-between-lookups", "dns-servfail"},
		Quick:       kit.Budget{Runs: 600, WallS: 120, CaseS: 120},
		Thorough:    kit.Budget{Runs: 60000, WallS: 1200, CaseS: 300},
		Gen:         genC38, Exec: execC38,
		Shrink: func(c C38Case) []C38Case {
			var out []C38Case
			for _, l := range kit.ListShrinks(c.Ops) {
				if len(l) > 0 {
					out = append(out, C38Case{Hosts: c.Hosts, Ops: l})
				}
			}

			return out
		},
	})
}
