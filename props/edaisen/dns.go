package edaisen

import (
	"context"
	"encoding/binary"
	"net"
	"net/netip"
	"strings"
	"sync"
)

// fakeDNS is a scripted resolver: a UDP server on loopback that the process's
// Go resolver is pointed at. Each name has answer rounds; the i-th A (AAAA)
// query for a name is answered with the A (AAAA) records of round i (the last
// round repeats).
type fakeDNS struct {
	mu      sync.Mutex
	conn    *net.UDPConn
	rounds  map[string][][]netip.Addr // lower-case FQDN without trailing dot -> rounds
	countA  map[string]int
	count6  map[string]int
	Queries int
}

var (
	dnsOnce sync.Once
	theDNS  *fakeDNS
)

func startDNS() *fakeDNS {
	dnsOnce.Do(func() {
		c, err := net.ListenUDP("udp4", &net.UDPAddr{IP: net.IPv4(127, 0, 0, 1)})
		if err != nil {
			panic(err)
		}

		theDNS = &fakeDNS{conn: c}
		theDNS.reset()

		go theDNS.serve()

		addr := c.LocalAddr().String()
		net.DefaultResolver = &net.Resolver{
			PreferGo: true,
			Dial: func(ctx context.Context, _, _ string) (net.Conn, error) {
				var d net.Dialer
				return d.DialContext(ctx, "udp4", addr)
			},
		}
	})

	return theDNS
}

func (d *fakeDNS) reset() {
	d.mu.Lock()
	d.rounds, d.countA, d.count6, d.Queries = map[string][][]netip.Addr{}, map[string]int{}, map[string]int{}, 0
	d.mu.Unlock()
}

func (d *fakeDNS) set(name string, rounds [][]netip.Addr) {
	d.mu.Lock()
	d.rounds[strings.ToLower(name)] = rounds
	d.mu.Unlock()
}

// failRepeat is how many queries of one type a failing round absorbs: the Go
// resolver repeats a query that was answered SERVFAIL (resolv.conf attempts,
// default 2) before it gives the lookup up as a temporary failure.
const failRepeat = 2

// failing reports whether a round is a resolver fault (a single zero address).
func failing(round []netip.Addr) bool { return len(round) == 1 && !round[0].IsValid() }

// roundOf maps the number of queries of one type a name has had to the round the
// next query is answered from.
func roundOf(rounds [][]netip.Addr, queries int) int {
	for k, r := range rounds {
		cost := 1
		if failing(r) {
			cost = failRepeat
		}

		if queries < cost {
			return k
		}

		queries -= cost
	}

	return len(rounds) - 1
}

// lookups returns how many complete lookups (rounds of A queries) the name has had.
func (d *fakeDNS) lookups(name string) int {
	d.mu.Lock()
	defer d.mu.Unlock()

	name = strings.ToLower(name)
	n := d.countA[name]
	rounds := d.rounds[name]
	done := 0

	for _, r := range rounds {
		cost := 1
		if failing(r) {
			cost = failRepeat
		}

		if n < cost {
			break
		}

		n -= cost
		done++
	}

	return done + n
}

func (d *fakeDNS) serve() {
	buf := make([]byte, 1500)

	for {
		n, from, err := d.conn.ReadFromUDP(buf)
		if err != nil {
			return
		}

		if rsp := d.answer(buf[:n]); rsp != nil {
			_, _ = d.conn.WriteToUDP(rsp, from)
		}
	}
}

func (d *fakeDNS) answer(q []byte) []byte {
	if len(q) < 12 {
		return nil
	}

	// parse the single question
	var labels []string

	i := 12
	for i < len(q) && q[i] != 0 {
		l := int(q[i])
		if i+1+l > len(q) {
			return nil
		}

		labels = append(labels, string(q[i+1:i+1+l]))
		i += 1 + l
	}

	if i+5 > len(q) {
		return nil
	}

	qtype := binary.BigEndian.Uint16(q[i+1:])
	qend := i + 5
	name := strings.ToLower(strings.Join(labels, "."))

	d.mu.Lock()
	d.Queries++
	rounds, known := d.rounds[name]

	var addrs []netip.Addr

	servfail := false

	if known && len(rounds) > 0 && (qtype == 1 || qtype == 28) {
		cnt := &d.countA
		if qtype == 28 {
			cnt = &d.count6
		}

		k := roundOf(rounds, (*cnt)[name])
		(*cnt)[name]++

		if failing(rounds[k]) {
			servfail = true
		} else {
			for _, a := range rounds[k] {
				if (qtype == 1) == a.Is4() {
					addrs = append(addrs, a)
				}
			}
		}
	}
	d.mu.Unlock()

	rsp := make([]byte, 0, 512)
	rsp = append(rsp, q[0], q[1]) // ID

	flags := uint16(0x8180)
	if !known {
		flags = 0x8183 // NXDOMAIN
	}

	if servfail {
		flags = 0x8182 // SERVFAIL: the resolver treats the lookup as a temporary failure
	}

	rsp = binary.BigEndian.AppendUint16(rsp, flags)
	rsp = binary.BigEndian.AppendUint16(rsp, 1)
	rsp = binary.BigEndian.AppendUint16(rsp, uint16(len(addrs)))
	rsp = binary.BigEndian.AppendUint16(rsp, 0)
	rsp = binary.BigEndian.AppendUint16(rsp, 0)
	rsp = append(rsp, q[12:qend]...)

	for _, a := range addrs {
		rsp = append(rsp, 0xC0, 0x0C)
		rsp = binary.BigEndian.AppendUint16(rsp, qtype)
		rsp = binary.BigEndian.AppendUint16(rsp, 1)
		rsp = binary.BigEndian.AppendUint32(rsp, 0)

		raw := a.AsSlice()
		rsp = binary.BigEndian.AppendUint16(rsp, uint16(len(raw)))
		rsp = append(rsp, raw...)
	}

	return rsp
}
