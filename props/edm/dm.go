// Package edm runs the real data mover between two harness memories.
package edm

import (
	"fmt"
	"sort"

	"github.com/sarchlab/akita/v5/hooking"
	"github.com/sarchlab/akita/v5/mem/datamover"
	"github.com/sarchlab/akita/v5/mem/datamoverprotocol"
	"github.com/sarchlab/akita/v5/mem/memprotocol"
	"github.com/sarchlab/akita/v5/messaging"
	"github.com/sarchlab/akita/v5/modeling"
	"github.com/sarchlab/akita/v5/naming"
	"github.com/sarchlab/akita/v5/noc/directconnection"
	"github.com/sarchlab/akita/v5/timing"
	"github.com/sarchlab/akita/v5/tracing"

	"verif/sim/kit"
)

// Move is one data-move request.
type Move struct {
	SrcSide string `json:"src_side"` // inside | outside
	DstSide string `json:"dst_side"`
	Src     uint64 `json:"src"`
	Dst     uint64 `json:"dst"`
	Size    uint64 `json:"size"`
	At      uint64 `json:"at,omitempty"`
}

// Cfg is one data-mover run.
type Cfg struct {
	InsideGran  uint64 `json:"inside_gran"`
	OutsideGran uint64 `json:"outside_gran"`
	BufferSize  uint64 `json:"buffer_size"`
	InsideMems  int    `json:"inside_mems"` // >1: interleaved over several memories
	OutsideMems int    `json:"outside_mems"`
	Interleave  uint64 `json:"interleave"`
	PortBuf     int    `json:"port_buf"`
	MinDelay    int    `json:"min_delay"`
	MaxDelay    int    `json:"max_delay"`
	Reorder     bool   `json:"reorder"`
	MemSeed     uint64 `json:"mem_seed"`
	TopBuf      int    `json:"top_buf"`
	AcceptEvery int    `json:"accept_every,omitempty"` // memories take a request only every k-th cycle (back-pressure)
	Moves       []Move `json:"moves"`
	Traced      bool   `json:"traced,omitempty"`
}

type registrar struct{ eng *timing.SerialEngine }

func (r *registrar) GetEngine() timing.Engine        { return r.eng }
func (r *registrar) RegisterComponent(naming.Named)  {}
func (r *registrar) RegisterConnection(naming.Named) {}
func (r *registrar) RegisterResource(naming.Named)   {}
func (r *registrar) RegisterPort(naming.Named)       {}

type pendingRsp struct {
	at  uint64
	seq int
	msg messaging.Msg
}

// memStub is a byte-addressable memory with seeded response delays and optional
// reordering of responses.
type memStub struct {
	w    *world
	side string
	tc   *modeling.TickingComponent
	port messaging.Port
	pend []pendingRsp
	rnd  *kit.Rand
	seq  int
}

type access struct {
	side  string
	write bool
	addr  uint64
	size  uint64
	time  uint64
}

type world struct {
	c      *Cfg
	eng    *timing.SerialEngine
	dm     *datamover.Comp
	mem    map[string]map[uint64]byte // side -> contents (the real thing)
	model  map[string]map[uint64]byte // side -> contents according to the sequential model
	drv    *modeling.TickingComponent
	top    messaging.Port
	next   int
	sent   map[uint64]int // request ID -> move index
	sentAt []uint64
	acked  []bool
	ackOrd []int
	acc    []access
	V      *kit.Violation
	events uint64
	// control-script runs (C18): no data model, moves may be lost to a reset
	noModel   bool
	lost      int
	onAckHook func(reqID uint64)
}

func (w *world) fail(sig, f string, a ...any) {
	if w.V == nil {
		w.V = kit.Violate("data-mover", sig, f, a...)
	}
}

func initial(side string, addr uint64) byte {
	x := addr*2654435761 + 97
	if side == "outside" {
		x = addr*40503 + 13
	}

	return byte(x>>7) | 1
}

func (w *world) read(m map[string]map[uint64]byte, side string, addr uint64) byte {
	if b, ok := m[side][addr]; ok {
		return b
	}

	return initial(side, addr)
}

func (s *memStub) Tick() bool {
	w := s.w
	now := uint64(w.eng.CurrentTime())
	progress := false

	slow := s.w.c.AcceptEvery > 1 && (now/1000)%uint64(s.w.c.AcceptEvery) != 0
	if slow && s.port.NumIncoming() > 0 {
		progress = true // come back next cycle
	}

	for !slow {
		m := s.port.RetrieveIncoming()
		if m == nil {
			break
		}

		progress = true
		delay := uint64(s.w.c.MinDelay)

		if d := s.w.c.MaxDelay - s.w.c.MinDelay; d > 0 {
			delay += uint64(s.rnd.Intn(d + 1))
		}

		switch r := m.(type) {
		case memprotocol.ReadReq:
			data := make([]byte, r.AccessByteSize)
			for i := range data {
				data[i] = w.read(w.mem, s.side, r.Address+uint64(i))
			}

			w.acc = append(w.acc, access{s.side, false, r.Address, r.AccessByteSize, now})
			rsp := memprotocol.DataReadyRsp{Data: data}
			rsp.ID, rsp.Src, rsp.Dst, rsp.RspTo = timing.GetIDGenerator().Generate(), s.port.AsRemote(), r.Src, r.ID
			rsp.TrafficClass, rsp.TrafficBytes = "memprotocol.DataReadyRsp", len(data)+4
			s.pend = append(s.pend, pendingRsp{now + delay*1000, s.seq, rsp})
		case memprotocol.WriteReq:
			for i, b := range r.Data {
				if r.DirtyMask == nil || r.DirtyMask[i] {
					w.mem[s.side][r.Address+uint64(i)] = b
				}
			}

			w.acc = append(w.acc, access{s.side, true, r.Address, uint64(len(r.Data)), now})
			rsp := memprotocol.WriteDoneRsp{}
			rsp.ID, rsp.Src, rsp.Dst, rsp.RspTo = timing.GetIDGenerator().Generate(), s.port.AsRemote(), r.Src, r.ID
			rsp.TrafficClass, rsp.TrafficBytes = "memprotocol.WriteDoneRsp", 4
			s.pend = append(s.pend, pendingRsp{now + delay*1000, s.seq, rsp})
		default:
			w.fail("C23:unexpected-message-at-memory", "%s memory received %T", s.side, m)
		}

		s.seq++
	}

	// send what is due: in arrival order, or (reorder) in due-time order
	if s.w.c.Reorder {
		sort.SliceStable(s.pend, func(i, j int) bool { return s.pend[i].at < s.pend[j].at })
	}

	for len(s.pend) > 0 {
		idx := 0
		if s.pend[idx].at > now || !s.port.CanSend() {
			break
		}

		s.port.Send(s.pend[idx].msg)
		s.pend = s.pend[1:]
		progress = true
	}

	return progress || len(s.pend) > 0
}

type driver struct{ w *world }

func overlaps(a, b Move) bool {
	hit := func(s1 string, a1, n1 uint64, s2 string, a2, n2 uint64) bool {
		return s1 == s2 && a1 < a2+n2 && a2 < a1+n1
	}

	// generous: granule-rounded ranges
	const pad = 512

	return hit(a.DstSide, a.Dst-min(a.Dst, pad), a.Size+2*pad, b.SrcSide, b.Src, b.Size) ||
		hit(a.DstSide, a.Dst-min(a.Dst, pad), a.Size+2*pad, b.DstSide, b.Dst, b.Size) ||
		hit(a.SrcSide, a.Src-min(a.Src, pad), a.Size+2*pad, b.DstSide, b.Dst, b.Size)
}

func (d driver) Tick() bool {
	w := d.w
	now := uint64(w.eng.CurrentTime())
	progress := false

	for {
		m := w.top.RetrieveIncoming()
		if m == nil {
			break
		}

		progress = true

		rsp, ok := m.(datamoverprotocol.DataMoveResponse)
		if !ok {
			w.fail("C23:unexpected-response-kind", "the requester received %T", m)
			continue
		}

		mi, known := w.sent[rsp.RspTo]
		if !known {
			w.fail("C23:ack-for-unknown-request", "acknowledgement with RspTo=%d matches no move request", rsp.RspTo)
			continue
		}

		if w.acked[mi] && !w.noModel {
			w.fail("C23:move-acknowledged-twice", "move #%d was acknowledged twice", mi)
			continue
		}

		if w.onAckHook != nil {
			w.onAckHook(rsp.RspTo)
		}

		if w.noModel {
			if w.acked[mi] {
				continue // released by a reset, answered all the same
			}

			w.acked[mi] = true

			continue
		}

		w.acked[mi] = true
		w.ackOrd = append(w.ackOrd, mi)
		w.onAck(mi, now)
	}

	for w.next < len(w.c.Moves) {
		mv := w.c.Moves[w.next]
		if mv.At > now {
			w.eng.Schedule(wakeEvt{t: timing.VTimeInPicoSec(mv.At), tc: w.drv})
			break
		}

		// a move that touches what an unacknowledged earlier move reads or writes
		// waits for that acknowledgement: otherwise "when the move was requested"
		// and "served in order" give different expectations
		blocked := false

		for i := 0; i < w.next; i++ {
			if !w.acked[i] && overlaps(w.c.Moves[i], mv) {
				blocked = true
			}
		}

		if blocked || !w.top.CanSend() {
			break
		}

		req := datamoverprotocol.DataMoveRequest{SrcAddress: mv.Src, DstAddress: mv.Dst, ByteSize: mv.Size,
			SrcSide: datamoverprotocol.DataMovePort(mv.SrcSide), DstSide: datamoverprotocol.DataMovePort(mv.DstSide)}
		req.ID, req.Src, req.Dst = timing.GetIDGenerator().Generate(), w.top.AsRemote(), w.dm.GetPortByName("Top").AsRemote()
		req.TrafficClass, req.TrafficBytes = "datamoverprotocol.DataMoveRequest", 32
		w.top.Send(req)
		w.sent[req.ID] = w.next
		w.sentAt[w.next] = now

		// the sequential model applies the move now (nothing it touches is in flight)
		buf := make([]byte, mv.Size)
		for i := range buf {
			buf[i] = w.read(w.model, mv.SrcSide, mv.Src+uint64(i))
		}

		for i, b := range buf {
			w.model[mv.DstSide][mv.Dst+uint64(i)] = b
		}

		w.next++
		progress = true
	}

	return progress
}

// onAck compares the real memories with the model around the acknowledged move.
func (w *world) onAck(mi int, now uint64) {
	mv := w.c.Moves[mi]

	// acknowledgements arrive in request order
	if len(w.ackOrd) >= 2 && w.ackOrd[len(w.ackOrd)-2] > mi {
		w.fail("C23:acknowledged-out-of-order", "move #%d was acknowledged after move #%d", mi, w.ackOrd[len(w.ackOrd)-2])
		return
	}

	notMultiple := ""
	if g := w.gran(mv.DstSide); mv.Size%g != 0 || mv.Size%w.gran(mv.SrcSide) != 0 {
		notMultiple = "[size-not-multiple-of-granularity]"
	}

	for i := uint64(0); i < mv.Size; i++ {
		if got, want := w.read(w.mem, mv.DstSide, mv.Dst+i), w.read(w.model, mv.DstSide, mv.Dst+i); got != want {
			w.fail("C23:destination-byte-wrong"+notMultiple, "move #%d (%s %#x -> %s %#x, %d bytes, granularity %d/%d, buffer %d) acknowledged at t=%d: destination byte +%d is %#02x, the source held %#02x when the move was requested", mi, mv.SrcSide, mv.Src, mv.DstSide, mv.Dst, mv.Size, w.gran(mv.SrcSide), w.gran(mv.DstSide), w.c.BufferSize, now, i, got, want)
			return
		}
	}

	w.compareAll(fmt.Sprintf("after the acknowledgement of move #%d (%s %#x -> %s %#x, %d bytes, granularity %d/%d)", mi, mv.SrcSide, mv.Src, mv.DstSide, mv.Dst, mv.Size, w.gran(mv.SrcSide), w.gran(mv.DstSide)), mi, notMultiple)
}

// compareAll: every byte the real memories hold differs from its initial value
// only where the model says so (moves acknowledged so far; later ones may be in progress).
func (w *world) compareAll(when string, upto int, tag string) {
	for side, m := range w.mem {
		var addrs []uint64
		for a := range m {
			addrs = append(addrs, a)
		}

		sort.Slice(addrs, func(i, j int) bool { return addrs[i] < addrs[j] })

		for _, a := range addrs {
			got := m[a]

			// inside the destination of a move that is not acknowledged yet: in progress
			busy := false

			for j := range w.c.Moves {
				mv := w.c.Moves[j]
				if j < w.next && !w.acked[j] && mv.DstSide == side && a >= mv.Dst && a < mv.Dst+mv.Size {
					busy = true
				}
			}

			if busy {
				continue
			}

			if want := w.read(w.model, side, a); got != want {
				w.fail("C23:byte-outside-destination-changed"+tag, "%s: %s memory byte %#x is %#02x, it should still be %#02x: it lies outside every destination range written so far", when, side, a, got, want)
				return
			}
		}
	}
}

func (w *world) gran(side string) uint64 {
	if side == "inside" {
		return w.c.InsideGran
	}

	return w.c.OutsideGran
}

type wakeEvt struct {
	t  timing.VTimeInPicoSec
	tc *modeling.TickingComponent
}

func (e wakeEvt) Time() timing.VTimeInPicoSec { return e.t }
func (e wakeEvt) HandlerID() string           { return "DMWaker" }
func (e wakeEvt) IsSecondary() bool           { return false }

type waker struct{}

func (waker) Handle(e timing.Event) error {
	e.(wakeEvt).tc.TickLater()
	return nil
}

type capStop struct{}

type capHook struct{ w *world }

func (h capHook) Func(ctx hooking.HookCtx) {
	if ctx.Pos != timing.HookPosBeforeEvent {
		return
	}

	h.w.events++
	if h.w.events > 600000 {
		panic(capStop{})
	}
}

type nopTracer struct{ tracing.NopTracer }

// run builds and executes the configuration.
func run(c *Cfg) (*world, bool) { return runWith(c, nil) }

// runWith lets the caller add components (a control driver, monitors) before the run.
func runWith(c *Cfg, extra func(w *world, mkPort func(messaging.Component, string, int) messaging.Port, conn func(string, ...messaging.Port))) (*world, bool) {
	timing.ResetIDGenerator()
	timing.UseSequentialIDGenerator()
	tracing.VerifResetRegistries()

	w := &world{c: c, eng: timing.NewSerialEngine(), sent: map[uint64]int{},
		mem:   map[string]map[uint64]byte{"inside": {}, "outside": {}},
		model: map[string]map[uint64]byte{"inside": {}, "outside": {}}}
	w.sentAt = make([]uint64, len(c.Moves))
	w.acked = make([]bool, len(c.Moves))
	w.eng.RegisterHandler("DMWaker", waker{})
	reg := &registrar{eng: w.eng}
	freq := 1 * timing.GHz

	mkPort := func(comp messaging.Component, name string, buf int) messaging.Port {
		return messaging.NewPort(comp, buf, buf, name)
	}

	conn := func(name string, ports ...messaging.Port) {
		cn := directconnection.MakeBuilder().WithRegistrar(reg).WithSpec(directconnection.Spec{Freq: freq}).Build(name)
		for _, p := range ports {
			cn.PlugIn(p)
		}
	}

	spec := datamover.DefaultSpec()
	spec.Freq, spec.BufferSize = freq, c.BufferSize
	spec.InsideByteGranularity, spec.OutsideByteGranularity = c.InsideGran, c.OutsideGran

	mkMems := func(side string, n int) ([]messaging.Port, []messaging.RemotePort) {
		var ports []messaging.Port

		var remotes []messaging.RemotePort

		for i := 0; i < n; i++ {
			s := &memStub{w: w, side: side, rnd: kit.NewRand(c.MemSeed + uint64(len(side)*31+i))}
			s.tc = modeling.NewTickingComponent(fmt.Sprintf("Mem%s%d", map[string]string{"inside": "In", "outside": "Out"}[side], i), w.eng, freq, s)
			s.port = mkPort(s.tc, s.tc.Name()+".Top", c.PortBuf)
			ports = append(ports, s.port)
			remotes = append(remotes, s.port.AsRemote())
		}

		return ports, remotes
	}

	inPorts, inRemotes := mkMems("inside", c.InsideMems)
	outPorts, outRemotes := mkMems("outside", c.OutsideMems)

	spec.InsideMapperKind, spec.InsideMapperPorts, spec.InsideMapperInterleavingSize = "single", inRemotes, 0
	if c.InsideMems > 1 {
		spec.InsideMapperKind, spec.InsideMapperInterleavingSize = "interleaved", c.Interleave
	}

	spec.OutsideMapperKind, spec.OutsideMapperPorts, spec.OutsideMapperInterleavingSize = "single", outRemotes, 0
	if c.OutsideMems > 1 {
		spec.OutsideMapperKind, spec.OutsideMapperInterleavingSize = "interleaved", c.Interleave
	}

	w.dm = datamover.MakeBuilder().WithRegistrar(reg).WithSpec(spec).Build("DM")

	for _, n := range []string{"Top", "Inside", "Outside", "Control"} {
		buf := c.PortBuf
		if n == "Top" {
			buf = c.TopBuf
		}

		w.dm.AssignPort(n, mkPort(w.dm, "DM."+n, buf))
	}

	if c.Traced {
		tracing.CollectTrace(w.dm, nopTracer{})
	}

	w.drv = modeling.NewTickingComponent("Driver", w.eng, freq, driver{w})
	w.top = mkPort(w.drv, "Driver.Out", c.TopBuf)

	conn("TopConn", w.top, w.dm.GetPortByName("Top"))
	conn("InConn", append([]messaging.Port{w.dm.GetPortByName("Inside")}, inPorts...)...)
	conn("OutConn", append([]messaging.Port{w.dm.GetPortByName("Outside")}, outPorts...)...)

	if extra != nil {
		extra(w, mkPort, conn)
	}

	w.eng.AcceptHook(capHook{w})
	w.drv.TickLater()

	capHit := false

	func() {
		defer func() {
			if x := recover(); x != nil {
				if _, ok := x.(capStop); ok {
					capHit = true
					return
				}

				panic(x)
			}
		}()

		_ = w.eng.Run()
	}()

	return w, capHit
}
