package edm

import (
	"fmt"

	"github.com/sarchlab/akita/v5/mem/memcontrolprotocol"
	"github.com/sarchlab/akita/v5/messaging"
	"github.com/sarchlab/akita/v5/modeling"
	"github.com/sarchlab/akita/v5/noc/directconnection"
	"github.com/sarchlab/akita/v5/timing"

	"verif/props/ctrlmon"
	"verif/sim/kit"
)

// CtrlStep is one control request sent to the data mover.
type CtrlStep struct {
	Cmd  int    `json:"cmd"`
	At   uint64 `json:"at,omitempty"`
	Wait bool   `json:"wait"`
}

// C18DM is a data-mover run under a control script (the twelfth agent of C18).
type C18DM struct {
	Cfg   Cfg        `json:"cfg"`
	Steps []CtrlStep `json:"steps"`
}

type ctrlDriver struct {
	w       *world
	tc      *modeling.TickingComponent
	port    messaging.Port
	steps   []CtrlStep
	next    int
	waiting map[uint64]int
	acks    int
	unknown int
}

func (d *ctrlDriver) Tick() bool {
	w := d.w
	now := uint64(w.eng.CurrentTime())
	progress := false

	for {
		m := d.port.RetrieveIncoming()
		if m == nil {
			break
		}

		progress = true

		if _, ok := d.waiting[m.Meta().RspTo]; ok {
			delete(d.waiting, m.Meta().RspTo)
			d.acks++
		} else {
			d.unknown++
		}

		w.drv.TickLater() // a reset or an enable may unblock the requester
	}

	for d.next < len(d.steps) {
		st := d.steps[d.next]
		if st.At > now {
			w.eng.Schedule(wakeEvt{t: timing.VTimeInPicoSec(st.At), tc: d.tc})
			break
		}

		if d.next > 0 && d.steps[d.next-1].Wait && len(d.waiting) > 0 {
			break
		}

		if !d.port.CanSend() {
			break
		}

		req := memcontrolprotocol.Req{Command: memcontrolprotocol.Command(st.Cmd)}
		req.ID, req.Src, req.Dst = timing.GetIDGenerator().Generate(), d.port.AsRemote(), w.dm.GetPortByName("Control").AsRemote()
		req.TrafficClass = "memcontrolprotocol.Req"
		d.port.Send(req)
		d.waiting[req.ID] = d.next
		d.next++
		progress = true
	}

	return progress
}

// GenC18DM draws a data-mover configuration and a control script.
func GenC18DM(r *kit.Rand, tier kit.Tier) C18DM {
	c := C18DM{Cfg: genC23(r, tier)}

	// sizes are multiples of the granularities here: the script is the subject
	for i := range c.Cfg.Moves {
		mv := &c.Cfg.Moves[i]
		unit := max(c.Cfg.InsideGran, c.Cfg.OutsideGran)
		mv.Size = (mv.Size + unit - 1) / unit * unit
	}

	t := uint64(0)

	for i := 0; i < r.Range(1, 7); i++ {
		st := CtrlStep{Cmd: r.Weighted(4, 4, 4, 3, 1, 1), Wait: r.Chance(1, 2)} // pause drain enable reset invalidate flush

		if r.Chance(2, 3) {
			t += uint64(r.PickInt(0, 1000, 5000, 20000, 80000))
			st.At = t
		}

		c.Steps = append(c.Steps, st)
	}

	c.Steps = append(c.Steps, CtrlStep{Cmd: int(memcontrolprotocol.CmdEnable), Wait: true})

	return c
}

// ExecC18DM runs the script with the control-protocol monitor attached.
func ExecC18DM(c C18DM, _ *kit.Env) kit.Outcome {
	var out kit.Outcome

	mon := ctrlmon.New("DM", "datamover", memcontrolprotocol.VerbSupport{Pause: true, Drain: true, Enable: true, Reset: true})

	var w *world

	var drv *ctrlDriver

	cfg := c.Cfg
	released := map[uint64]bool{}

	w, capHit := runWith(&cfg, func(ww *world, mkPort func(messaging.Component, string, int) messaging.Port, conn func(string, ...messaging.Port)) {
		w = ww
		w.noModel = true
		mon.Fail = func(_ string, sig, f string, a ...any) { w.fail(sig, f, a...) }
		mon.Release = func(id uint64, _ bool) {
			if mi, ok := w.sent[id]; ok && !w.acked[mi] {
				released[id] = true
				w.acked[mi] = true // the move was inside the mover when it was reset: it may stay unanswered
				w.lost++
			}
		}
		w.onAckHook = func(id uint64) { mon.Received[id] = true }

		drv = &ctrlDriver{w: w, steps: c.Steps, waiting: map[uint64]int{}}
		drv.tc = modeling.NewTickingComponent("CtrlDriver", w.eng, 1*timing.GHz, drv)
		drv.port = mkPort(drv.tc, "CtrlDriver.Out", 8)
		conn("CtrlConn", drv.port, w.dm.GetPortByName("Control"))

		w.dm.GetPortByName("Top").AcceptHook(mon.Hook("top"))
		w.dm.GetPortByName("Control").AcceptHook(mon.Hook("control"))
		w.dm.GetPortByName("Inside").AcceptHook(mon.Hook("down"))
		w.dm.GetPortByName("Outside").AcceptHook(mon.Hook("down"))
		drv.tc.TickLater()
	})

	_ = directconnection.Spec{}
	out.Events = w.events

	if w.V != nil {
		out.Violation = w.V
		return out
	}

	if capHit {
		out.Inconclusive = "event-cap"
		return out
	}

	if drv.next < len(c.Steps) || len(drv.waiting) > 0 {
		out.Violation = kit.Violate("control-monitor", "C18:control-request-unanswered", "run ended at t=%d with the data mover's control script at step %d of %d and %d request(s) never acknowledged", w.eng.CurrentTime(), drv.next, len(c.Steps), len(drv.waiting))
		return out
	}

	if drv.unknown > 0 {
		out.Violation = kit.Violate("control-monitor", "C18:unsolicited-control-response", "the control driver received %d response(s) matching no request", drv.unknown)
		return out
	}

	for i, a := range w.acked {
		if !a && i < w.next {
			out.Violation = kit.Violate("control-monitor", "C18:request-unanswered-after-final-enable[datamover]", "move #%d was sent, the mover was not reset while it held it, the script ended with enable, and the move was never acknowledged", i)
			return out
		}
	}

	out.Fault("control-verb", drv.acks)
	out.Fault("reset-with-traffic", mon.Resets)
	out.Fault("drain-with-traffic", mon.Drains)
	out.Probe("refused-verbs", mon.Refusals)
	out.Probe("agent:datamover", 1)
	out.Probe("moves-lost-to-reset", w.lost)
	out.NonTrivial = drv.acks >= 2 && len(mon.Delivered) > 0
	out.Shape = fmt.Sprint("datamover", c.Steps, len(w.acc), w.eng.CurrentTime())
	out.Sample = map[string]any{"agent": "datamover", "script": c.Steps, "acks": drv.acks}

	return out
}

// ShrinkC18DM proposes simpler scripts and configurations.
func ShrinkC18DM(c C18DM) []C18DM {
	var out []C18DM

	for _, l := range kit.ListShrinks(c.Steps[:len(c.Steps)-1]) {
		out = append(out, C18DM{Cfg: c.Cfg, Steps: append(append([]CtrlStep(nil), l...), c.Steps[len(c.Steps)-1])})
	}

	for _, l := range kit.ListShrinks(c.Cfg.Moves) {
		if len(l) > 0 {
			q := c
			q.Cfg.Moves = l
			out = append(out, q)
		}
	}

	return out
}
