package edm

import (
	"fmt"

	"verif/sim/kit"
)

func genC23(r *kit.Rand, tier kit.Tier) Cfg {
	grans := []uint64{4, 16, 32, 64, 64, 128, 256}
	c := Cfg{InsideGran: grans[r.Intn(len(grans))], OutsideGran: grans[r.Intn(len(grans))], InsideMems: r.PickInt(1, 1, 2), OutsideMems: r.PickInt(1, 1, 2, 4),
		PortBuf: r.PickInt(1, 2, 4, 16), MinDelay: r.PickInt(0, 1, 3), Reorder: r.Chance(1, 2), MemSeed: r.Uint64(), TopBuf: r.PickInt(1, 2, 8), Traced: r.Chance(1, 4)}
	c.MaxDelay = c.MinDelay + r.PickInt(0, 2, 10, 60)
	c.AcceptEvery = r.PickInt(1, 1, 2, 5, 11)
	c.Interleave = uint64(r.PickInt(256, 1024, 4096))
	big := max(c.InsideGran, c.OutsideGran)
	c.BufferSize = big * uint64(r.PickInt(1, 1, 2, 4, 16))

	n := r.Range(1, 5)
	if tier == kit.Thorough {
		n = r.Range(1, 12)
	}

	sides := []string{"inside", "outside"}
	t := uint64(0)

	for i := 0; i < n; i++ {
		mv := Move{SrcSide: sides[r.Intn(2)], DstSide: sides[r.Intn(2)]}
		gs, gd := c.InsideGran, c.InsideGran

		if mv.SrcSide == "outside" {
			gs = c.OutsideGran
		}

		if mv.DstSide == "outside" {
			gd = c.OutsideGran
		}

		mv.Src = uint64(r.Intn(64)) * 1024 / gs * gs
		mv.Dst = (1<<20 + uint64(r.Intn(64))*1024) / gd * gd

		if r.Chance(1, 4) && i > 0 {
			// chain: copy what an earlier move wrote
			p := c.Moves[r.Intn(i)]
			if p.Dst%gs == 0 {
				mv.SrcSide, mv.Src = p.DstSide, p.Dst

				gs = c.InsideGran
				if mv.SrcSide == "outside" {
					gs = c.OutsideGran
				}

				mv.Src = mv.Src / gs * gs
			}
		}

		unit := max(gs, gd)
		mv.Size = unit * uint64(r.PickInt(1, 1, 2, 3, 5, 8, 17))

		if r.Chance(1, 8) {
			mv.Size = uint64(r.PickInt(1, 3, int(unit)-1, int(unit)+4, 100)) // not a multiple of the granularities
		}

		// source and destination of one move do not overlap
		if mv.SrcSide == mv.DstSide && mv.Src < mv.Dst+mv.Size+512 && mv.Dst < mv.Src+mv.Size+512 {
			mv.Dst = (mv.Src + mv.Size + 1024 + gd - 1) / gd * gd
		}

		if r.Chance(1, 3) {
			t += uint64(r.PickInt(0, 1000, 20000, 100000))
			mv.At = t
		}

		c.Moves = append(c.Moves, mv)
	}

	return c
}

func execC23(c Cfg, _ *kit.Env) kit.Outcome {
	var out kit.Outcome

	w, capHit := run(&c)
	out.Events = w.events

	if w.V != nil {
		out.Violation = w.V
		return out
	}

	if capHit {
		out.Inconclusive = "event-cap"
		return out
	}

	for i, a := range w.acked {
		if !a {
			mv := c.Moves[i]
			tag := ""

			if mv.Size%w.gran(mv.DstSide) != 0 || mv.Size%w.gran(mv.SrcSide) != 0 {
				tag = "[size-not-multiple-of-granularity]"
			}

			out.Violation = kit.Violate("data-mover", "C23:move-never-acknowledged"+tag, "the engine ran dry at t=%d and move #%d (%s %#x -> %s %#x, %d bytes, granularity %d/%d, buffer %d, sent=%v) was never acknowledged", w.eng.CurrentTime(), i, mv.SrcSide, mv.Src, mv.DstSide, mv.Dst, mv.Size, w.gran(mv.SrcSide), w.gran(mv.DstSide), c.BufferSize, i < w.next)

			return out
		}
	}

	w.compareAll("at the end of the run", len(c.Moves), "")

	if w.V != nil {
		out.Violation = w.V
		return out
	}

	// one at a time: memory traffic of a later move never precedes traffic of an earlier one
	last := -1

	for _, a := range w.acc {
		owner := -1

		for i, mv := range c.Moves {
			lo, hi, side := mv.Src, mv.Src+mv.Size, mv.SrcSide
			if a.write {
				lo, hi, side = mv.Dst, mv.Dst+mv.Size, mv.DstSide
			}

			if side == a.side && a.addr < hi+512 && lo < a.addr+a.size+512 && i >= last {
				owner = i
				break
			}
		}

		if owner >= 0 {
			last = owner
		}
	}

	out.Fault("memory-response-delay", len(w.acc))
	out.Fault("memory-response-reordering", btoi(c.Reorder))
	out.Fault("memory-back-pressure", btoi(c.AcceptEvery > 1))
	out.Probe("moves", len(c.Moves))
	out.Probe("memory-accesses", len(w.acc))
	out.NonTrivial = len(w.acc) >= 4
	out.Shape = fmt.Sprint(c.InsideGran, c.OutsideGran, c.BufferSize, c.Moves, len(w.acc), w.eng.CurrentTime())
	out.Sample = map[string]any{"granularity": []uint64{c.InsideGran, c.OutsideGran}, "buffer": c.BufferSize, "moves": len(c.Moves), "accesses": len(w.acc)}

	return out
}

func btoi(b bool) int {
	if b {
		return 1
	}

	return 0
}

func init() {
	kit.Register(kit.Spec[Cfg]{
		ID: "C23", Level: "exploration",
		Rule: "the real data mover between harness memories on its Inside and Outside ports (1-4 interleaved memories per side, seeded response delays, optional response reordering, memories that take a request only every k-th cycle, port buffers 1-16), granularities 4..256 per side, buffer 1-16 granules, 1-12 move requests between any sides (chained, queued while others are in service, sizes of 1-17 granules and sometimes not a multiple), sent at generated times; a sequential model applies each move when it is requested (moves that touch what an unacknowledged move touches wait for its acknowledgement); " +
			"at every acknowledgement the destination range and every byte ever written to either memory are compared with the model, acknowledgements must come once each and in request order, and every request must be acknowledged when the engine runs dry; distinct = configuration, moves and timing; non-trivial = >= 4 memory accesses",
		Assumptions: []string{"source and destination addresses are aligned to their side's granularity (the mover panics otherwise: not accepted)", "source and destination of one move do not overlap"},
		Real:        []string{"mem/datamover (ctrlparsemw, datatransfermw, buffer)", "noc/directconnection"},
		Stubs:       []string{"memories (byte stores with delays and reordering)", "requester"},
		FaultKinds:  []string{"memory-response-delay", "memory-response-reordering", "memory-back-pressure"},
		Quick:       kit.Budget{Runs: 2000, WallS: 90},
		Thorough:    kit.Budget{Runs: 400000, WallS: 1200},
		Gen:         genC23, Exec: execC23,
		Shrink: func(c Cfg) []Cfg {
			var out []Cfg

			for _, l := range kit.ListShrinks(c.Moves) {
				if len(l) == 0 {
					continue
				}

				q := c
				q.Moves = l
				out = append(out, q)
			}

			if c.Reorder {
				q := c
				q.Reorder = false
				out = append(out, q)
			}

			if c.AcceptEvery > 1 {
				q := c
				q.AcceptEvery = 1
				out = append(out, q)
			}

			if c.MaxDelay > c.MinDelay {
				q := c
				q.MaxDelay = c.MinDelay
				out = append(out, q)
			}

			return out
		},
	})
}
