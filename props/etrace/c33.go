package etrace

import (
	"fmt"
	"sort"
	"strings"

	"github.com/sarchlab/akita/v5/hooking"
	"github.com/sarchlab/akita/v5/messaging"
	"github.com/sarchlab/akita/v5/tracing"

	"verif/props/emem"
	"verif/props/enoc"
	"verif/props/evm"
	"verif/props/tracelog"
	"verif/sim/kit"
)

// Obs selects the observers attached to a run.
type Obs struct {
	EngineHook bool `json:"engine_hook"`
	PortHooks  bool `json:"port_hooks"`
	CompTracer bool `json:"comp_tracer"`
	Buffers    bool `json:"buffers"`
	Aggregates bool `json:"aggregates"`
	DB         bool `json:"db"`
	CompHook   bool `json:"comp_hook"` // a plain hook (not a tracer) on every component
}

func (o Obs) any() bool {
	return o.EngineHook || o.PortHooks || o.CompTracer || o.Buffers || o.Aggregates || o.DB || o.CompHook
}

// T33 is one simulation run with and without observers.
type T33 struct {
	Mem   *emem.Config    `json:"mem,omitempty"`
	Steps []emem.CtrlStep `json:"steps,omitempty"`
	VM    *evm.Cfg        `json:"vm,omitempty"`
	Net   *enoc.Net       `json:"net,omitempty"`
	Obs   Obs             `json:"obs"`
}

type nopHook struct{ n *int }

func (h nopHook) Func(hooking.HookCtx) { *h.n++ }

type timeTeller interface{ tracing.NamedHookable }

// attach installs the selected observers.
func (o Obs) attach(eng hooking.Hookable, domains []tracing.NamedHookable, ports map[string]messaging.Port, count *int) {
	if o.EngineHook {
		eng.AcceptHook(nopHook{count})
	}

	if o.PortHooks {
		l := &tracelog.Log{}
		names := make([]string, 0, len(ports))

		for n := range ports {
			names = append(names, n)
		}

		sort.Strings(names)

		for _, n := range names {
			ports[n].AcceptHook(nopHook{count})
		}

		_ = l
	}

	if o.CompHook {
		for _, d := range domains {
			d.AcceptHook(nopHook{count})
		}
	}

	if o.CompTracer {
		AttachAll(NewRec(), domains, ports, false)
	}

	if o.Aggregates {
		all := func(tracing.TaskStart) bool { return true }
		reqIn := func(t tracing.TaskStart) bool { return t.Kind == tracing.ReqInTaskKind }

		for _, d := range domains {
			tracing.CollectTrace(d, tracing.NewBusyTimeTracer(all))
			tracing.CollectTrace(d, tracing.NewTotalTimeTracer(reqIn))
			tracing.CollectTrace(d, tracing.NewAverageTimeTracer(reqIn))
			tracing.CollectTrace(d, tracing.NewTagCountTracer(all))
		}
	}

	if o.DB && len(domains) > 0 {
		db := tracing.NewDBTracer(domains[0], NewMemRecorder())
		db.StartTracing()

		for _, d := range domains {
			tracing.CollectTrace(d, db)
		}
	}

	if o.Buffers {
		names := make([]string, 0, len(ports))
		for n := range ports {
			names = append(names, n)
		}

		sort.Strings(names)

		for _, n := range names {
			for _, d := range domains {
				if strings.HasPrefix(n, d.Name()+".") {
					tracing.CollectIncomingBufferTrace(ports[n])
					tracing.CollectOutgoingBufferTrace(ports[n])
				}
			}
		}
	}
}

type outcome33 struct {
	lines   []string
	now     uint64
	events  uint64
	capHit  bool
	hookRan int
}

func run33(c T33, o Obs) outcome33 {
	var res outcome33

	tracing.VerifResetRegistries()

	if c.Mem != nil {
		w := emem.NewWorld()
		w.NoDataCheck = true
		w.NoEngineHook = !o.any()
		w.OnBuilt = func(a *emem.Asm) {
			if len(c.Steps) > 0 {
				w.Ctrl = emem.NewCtrlDriver(a, w, c.Steps)
			}

			o.attach(a.Eng, a.Domains(), a.Ports, &res.hookRan)
		}

		a := emem.Run(c.Mem, w)

		for _, r := range w.Resp {
			res.lines = append(res.lines, fmt.Sprintf("R req=%d ord=%d t=%d write=%v data=%x", r.Req, r.Ord, r.Time, r.Write, r.Data))
		}

		// final memory: every byte any operation touched, in the backing stores
		seen := map[uint64]bool{}

		var addrs []uint64

		for _, rq := range c.Mem.Reqs {
			for _, op := range rq.Ops {
				for i := 0; i < op.Size; i++ {
					if ad := op.Addr + uint64(i); !seen[ad] {
						seen[ad] = true
						addrs = append(addrs, ad)
					}
				}
			}
		}

		sort.Slice(addrs, func(i, j int) bool { return addrs[i] < addrs[j] })

		var mem strings.Builder

		for _, ad := range addrs {
			b, err := a.BackingByte(ad)
			if err != nil {
				fmt.Fprintf(&mem, "%x:err ", ad)
				continue
			}

			fmt.Fprintf(&mem, "%x:%02x ", ad, b)
		}

		res.lines = append(res.lines, "MEM "+mem.String())
		res.now, res.events, res.capHit = uint64(a.Eng.CurrentTime()), w.Events, w.CapHit

		return res
	}

	if c.Net != nil {
		w := enoc.Build(c.Net)
		w.Bare = !o.any()
		ports := map[string]messaging.Port{}

		for _, p := range w.Reg.Ports {
			if mp, ok := p.(messaging.Port); ok {
				ports[mp.Name()] = mp
			}
		}

		o.attach(w.Eng, w.Domains(), ports, &res.hookRan)
		w.Run()

		for _, r := range w.Recvs {
			res.lines = append(res.lines, fmt.Sprintf("R dev=%d port=%d t=%d %s %+v", r.Dev, r.Port, r.Time, r.Kind, r.Meta))
		}

		if w.V != nil {
			res.lines = append(res.lines, "VIOLATION "+w.V.Sig)
		}

		res.lines = append(res.lines, "MEM -")
		res.now, res.events, res.capHit = uint64(w.Eng.CurrentTime()), w.Events, w.CapHit

		return res
	}

	evm.NoEngineHook = !o.any()
	evm.ExtraAttach = func(w *evm.World) {
		o.attach(w.Eng, w.Domains(), w.Ports, &res.hookRan)
	}

	defer func() { evm.NoEngineHook, evm.ExtraAttach = false, nil }()

	w := evm.Build(c.VM)
	w.AttachSteps()
	w.Run()

	for _, l := range w.RespLog {
		res.lines = append(res.lines, "R "+l)
	}

	res.lines = append(res.lines, "MEM "+w.MemFingerprint())
	res.now, res.events, res.capHit = uint64(w.Eng.CurrentTime()), w.Events, w.CapHit

	return res
}

func genT33(r *kit.Rand, tier kit.Tier) T33 {
	var c T33

	switch r.Weighted(3, 2, 3, 3) {
	case 3:
		n := enoc.GenNet(r, tier)
		c.Net = &n
	case 0:
		m := emem.GenConfig(r, tier, emem.GenOpts{MaxOps: 40})
		c.Mem = &m
	case 1:
		k := emem.GenC18Case(r, tier)
		c.Mem, c.Steps = &k.Cfg, k.Steps
	default:
		v := evm.Gen(r, tier, false)
		if r.Chance(1, 3) {
			k := evm.GenC18VM(r, tier)
			v = k.Cfg
		}

		c.VM = &v
	}

	for !c.Obs.any() {
		c.Obs = Obs{EngineHook: r.Chance(1, 3), PortHooks: r.Chance(1, 3), CompTracer: r.Chance(1, 2), Buffers: r.Chance(1, 3), Aggregates: r.Chance(1, 4), DB: r.Chance(1, 4), CompHook: r.Chance(1, 4)}
	}

	return c
}

func execT33(c T33, _ *kit.Env) kit.Outcome {
	var out kit.Outcome

	// the observed run carries the event cap; the bare run is only trusted once
	// the observed one has terminated on its own
	obs := run33(c, c.Obs)
	out.Events = obs.events

	if obs.capHit {
		out.Inconclusive = "event-cap"
		return out
	}

	bare := run33(c, Obs{})

	if d := tracelog.FirstDiff(bare.lines, obs.lines); d != "" {
		what := "mem"
		if c.VM != nil {
			what = "vm"
		}

		if c.Net != nil {
			what = "net"
		}

		out.Violation = kit.Violate("observation", "C33:outcome-differs-with-observers["+what+"]", "with observers %+v attached the outcome differs from the bare run (bare vs observed): %s", c.Obs, d)

		return out
	}

	if bare.now != obs.now {
		out.Violation = kit.Violate("observation", "C33:end-time-differs-with-observers", "the bare run ends at t=%d, the observed one (%+v) at t=%d", bare.now, c.Obs, obs.now)
		return out
	}

	out.Probe("hook-invocations", obs.hookRan)
	out.Probe("runs-with-control-script", btoi(len(c.Steps) > 0 || (c.VM != nil && len(c.VM.Steps) > 0)))
	out.Fault("observer-set-attached", 1)
	out.NonTrivial = len(bare.lines) >= 3
	out.Shape = fmt.Sprint(c.Obs, len(bare.lines), bare.now)
	out.Sample = map[string]any{"observers": c.Obs, "responses": len(bare.lines) - 1, "end_time": bare.now}

	return out
}

func btoi(b bool) int {
	if b {
		return 1
	}

	return 0
}

func shrinkT33(c T33) []T33 {
	var out []T33

	if c.Mem != nil {
		for _, s := range emem.ShrinkConfig(*c.Mem) {
			s := s
			q := c
			q.Mem = &s
			out = append(out, q)
		}

		for _, l := range kit.ListShrinks(c.Steps) {
			q := c
			q.Steps = l
			out = append(out, q)
		}
	} else if c.Net != nil {
		for _, s := range enoc.ShrinkNet(*c.Net) {
			s := s
			q := c
			q.Net = &s
			out = append(out, q)
		}
	} else {
		for _, s := range evm.ShrinkCfg(*c.VM) {
			s := s
			q := c
			q.VM = &s
			out = append(out, q)
		}
	}

	flags := []*bool{&c.Obs.EngineHook, &c.Obs.PortHooks, &c.Obs.CompTracer, &c.Obs.Buffers, &c.Obs.Aggregates, &c.Obs.DB, &c.Obs.CompHook}
	for i := range flags {
		if *flags[i] {
			q := c
			qf := []*bool{&q.Obs.EngineHook, &q.Obs.PortHooks, &q.Obs.CompTracer, &q.Obs.Buffers, &q.Obs.Aggregates, &q.Obs.DB, &q.Obs.CompHook}
			*qf[i] = false

			if q.Obs.any() {
				out = append(out, q)
			}
		}
	}

	return out
}

func init() {
	kit.Register(kit.Spec[T33]{
		ID: "C33", Level: "exploration",
		Rule: "the same seeded simulation (multi-level memory hierarchy, single agent under a pause/drain/reset/flush control script, VM stack, some with control scripts, or switched network built by the generic/mesh/PCIe/NVLink connectors) is executed bare (no hook at all on engine, ports or components) and with a generated non-empty set of observers: engine hook, port hooks, plain component hooks, component tracer, incoming/outgoing buffer tracing, busy/total/average/tag-count tracers, DB tracer on an in-memory recorder; " +
			"the requesters' response logs (request, order, simulated time, kind, data), the final memory bytes of every touched address and the end time must be identical; distinct = observer set and outcome shape; non-trivial = >= 2 responses",
		Assumptions: []string{"generated IDs are not compared (the property exempts them)", "the observed run carries the event cap; a run that hits it is inconclusive"},
		Real:        []string{"tracing (api, tracers, buffer tracers, DB tracer)", "messaging ports and queueing buffers with hooks", "timing.SerialEngine with and without hooks", "mem/*, mem/vm/*", "noc/networking/*"},
		Stubs:       []string{"requesters", "control driver", "in-memory data recorder"},
		FaultKinds:  []string{"observer-set-attached"},
		Quick:       kit.Budget{Runs: 1200, WallS: 100},
		Thorough:    kit.Budget{Runs: 300000, WallS: 1500},
		Gen:         genT33, Exec: execT33, Shrink: shrinkT33,
	})
}
