package etrace

import (
	"fmt"
	"os"

	"github.com/sarchlab/akita/v5/messaging"

	"github.com/sarchlab/akita/v5/mem/memcontrolprotocol"

	"github.com/sarchlab/akita/v5/tracing"

	"verif/props/emem"
	"verif/props/enoc"
	"verif/props/evm"
	"verif/sim/kit"
)

// T32 is one traced run: a memory agent or a VM agent under a control script, or
// a plain multi-level memory hierarchy / VM stack.
type T32 struct {
	Mem18   *emem.C18Case `json:"mem18,omitempty"`
	VM18    *evm.C18VM    `json:"vm18,omitempty"`
	Mem     *emem.Config  `json:"mem,omitempty"`
	VM      *evm.Cfg      `json:"vm,omitempty"`
	Net     *enoc.Net     `json:"net,omitempty"`
	Buffers bool          `json:"buffers"`
}

func genT32(r *kit.Rand, tier kit.Tier) T32 {
	c := T32{Buffers: r.Chance(2, 3)}

	switch r.Weighted(3, 3, 2, 2, 3) {
	case 4:
		n := enoc.GenNet(r, tier)
		c.Net = &n
	case 0:
		m := emem.GenC18Case(r, tier)
		c.Mem18 = &m
	case 1:
		v := evm.GenC18VM(r, tier)
		c.VM18 = &v
	case 2:
		m := emem.GenConfig(r, tier, emem.GenOpts{MaxOps: 40})
		c.Mem = &m
	default:
		v := evm.Gen(r, tier, false)
		c.VM = &v
	}

	return c
}

// tracedRun executes the case with the recorder attached and returns the
// recorder, the inner outcome and the final simulated time.
func tracedRun(c T32, env *kit.Env) (*Rec, kit.Outcome, uint64) {
	rec := NewRec()
	rec.NoBuffers = !c.Buffers

	if c.Mem18 != nil {
		for _, st := range c.Mem18.Steps {
			rec.HasReset = rec.HasReset || st.Cmd == int(memcontrolprotocol.CmdReset)
		}
	}

	if c.VM18 != nil {
		rec.HasReset = c.VM18.HasReset()
	}
	now := uint64(0)

	tracing.VerifResetRegistries()

	emem.ExtraAttach = func(a *emem.Asm) {
		AttachAll(rec, a.Domains(), a.Ports, c.Buffers)
	}
	evm.ExtraAttach = func(w *evm.World) {
		AttachAll(rec, w.Domains(), w.Ports, c.Buffers)
	}

	defer func() { emem.ExtraAttach, evm.ExtraAttach = nil, nil }()

	var out kit.Outcome

	switch {
	case c.Mem18 != nil:
		out = emem.ExecC18Case(*c.Mem18, env)
	case c.VM18 != nil:
		out = evm.ExecC18VM(*c.VM18, env)
	case c.Net != nil:
		w := enoc.Build(c.Net)
		ports := map[string]messaging.Port{}

		for _, p := range w.Reg.Ports {
			if mp, ok := p.(messaging.Port); ok {
				ports[mp.Name()] = mp
			}
		}

		AttachAll(rec, w.Domains(), ports, c.Buffers)
		w.Run()

		out.Events, out.Violation = w.Events, w.V
		now = uint64(w.Eng.CurrentTime())

		if w.CapHit {
			out.Inconclusive = "event-cap"
		}

		if w.V == nil && !w.CapHit && w.Delivered() < len(c.Net.Msgs) {
			out.Inconclusive = "undelivered-messages" // a cyclic topology may block: no quiescent trace to judge
		}
	case c.Mem != nil:
		w := emem.NewWorld()
		a := emem.Run(c.Mem, w)
		out.Events, out.Violation = w.Events, w.V
		now = uint64(a.Eng.CurrentTime())

		if w.CapHit {
			out.Inconclusive = "event-cap"
		}
	default:
		w := evm.Build(c.VM)
		w.Run()
		out.Events, out.Violation = w.Events, w.V
		now = uint64(w.Eng.CurrentTime())

		if w.CapHit {
			out.Inconclusive = "event-cap"
		}
	}

	return rec, out, now
}

func execT32(c T32, env *kit.Env) kit.Outcome {
	rec, inner, now := tracedRun(c, env)

	var out kit.Outcome

	if os.Getenv("VERIF_TRACE_DUMP") != "" {
		for _, l := range rec.Lines {
			fmt.Fprintln(os.Stderr, "TRACE", l)
		}
	}

	out.Events, out.Steps = inner.Events, inner.Steps
	out.Faults, out.Probes = inner.Faults, inner.Probes

	if rec.V == nil && inner.Inconclusive == "" && inner.Violation == nil {
		rec.Quiescent(now)
	}

	switch {
	case rec.V != nil:
		out.Violation = rec.V
	case inner.Inconclusive != "":
		out.Inconclusive = inner.Inconclusive
	case inner.Violation != nil:
		// the assembly itself misbehaved: another property's business; the run did
		// not reach a trustworthy quiescent state
		out.Inconclusive = "inner-oracle"
		out.Probe("inner:"+inner.Violation.Sig, 1)
	case rec.Aside != nil:
		out.Violation = rec.Aside
	}

	rcv, in, outb := tracing.VerifRegistrySizes()
	out.Probe("registry-entries-left-at-quiescence", rcv+in+outb)
	out.Probe("tasks-started", rec.Starts)
	out.Probe("ends-of-never-started-tasks(reset-paths)", rec.UnknownEnds)
	out.Probe("tags", rec.Tags)
	out.Probe("milestones", rec.Miles)

	for k, n := range rec.Kinds {
		out.Probe("kind:"+k, n)
	}

	out.NonTrivial = rec.Starts >= 4
	out.Shape = fmt.Sprint(len(rec.Lines), rec.Starts, rec.Ends, rec.Tags, rec.Miles, inner.Shape)
	out.Sample = map[string]any{"tasks": rec.Starts, "tags": rec.Tags, "milestones": rec.Miles, "locations": len(rec.KindAt), "inner": inner.Sample}

	return out
}

func shrinkT32(c T32) []T32 {
	var out []T32

	switch {
	case c.Mem18 != nil:
		for _, s := range emem.ShrinkC18Case(*c.Mem18) {
			s := s
			q := c
			q.Mem18 = &s
			out = append(out, q)
		}
	case c.VM18 != nil:
		for _, s := range evm.ShrinkC18VM(*c.VM18) {
			s := s
			q := c
			q.VM18 = &s
			out = append(out, q)
		}
	case c.Mem != nil:
		for _, s := range emem.ShrinkConfig(*c.Mem) {
			s := s
			q := c
			q.Mem = &s
			out = append(out, q)
		}
	case c.Net != nil:
		for _, s := range enoc.ShrinkNet(*c.Net) {
			s := s
			q := c
			q.Net = &s
			out = append(out, q)
		}
	case c.VM != nil:
		for _, s := range evm.ShrinkCfg(*c.VM) {
			s := s
			q := c
			q.VM = &s
			out = append(out, q)
		}
	}

	if c.Buffers {
		q := c
		q.Buffers = false
		out = append(out, q)
	}

	return out
}

func init() {
	kit.Register(kit.Spec[T32]{
		ID: "C32", Level: "exploration",
		Rule: "a checking recorder is attached with tracing.CollectTrace to every library component (ROB, caches, memory controllers, connections; TLBs, MMU cache, GMMU, MMU, address translator) and, in 2/3 of the runs, incoming/outgoing buffer tracing to all of their ports; runs are C18's single-agent control histories (pause/drain/reset/flush/invalidate in the middle of traffic, memory and VM agents) plain multi-level memory hierarchies and VM stacks, and switched networks (switches, endpoints, connections) under traffic; " +
			"while the run proceeds: no task started twice, ended twice or before its start, tags and milestones refer to started tasks within their lifetime, one kind per location; at quiescence every started task has ended; distinct = stream shape; non-trivial = >= 4 tasks",
		Assumptions: []string{"ends of tasks that were never started are allowed (EndTaskOnReset documents that reset paths end every task a transaction could hold)", "runs in which the assembly itself violates another property's oracle or hits the event cap are inconclusive: they have no trustworthy quiescent state"},
		Real:        []string{"tracing (api, registry, buffer tracers)", "mem/*, mem/vm/* tracing call sites"},
		Stubs:       []string{"requesters", "control driver", "lower-memory stub in some assemblies"},
		FaultKinds:  []string{"control-verb", "reset-with-traffic", "drain-with-traffic"},
		Quick:       kit.Budget{Runs: 1500, WallS: 90},
		Thorough:    kit.Budget{Runs: 400000, WallS: 1500},
		Gen:         genT32, Exec: execT32, Shrink: shrinkT32,
	})
}
