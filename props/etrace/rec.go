// Package etrace holds the tracing properties: a recording tracer attached to
// every library component of the memory and VM assemblies of the other engines.
package etrace

import (
	"fmt"
	"sort"
	"strings"

	"github.com/sarchlab/akita/v5/messaging"
	"github.com/sarchlab/akita/v5/tracing"

	"verif/sim/kit"
)

type taskRec struct {
	start    tracing.TaskStart
	domain   string
	ended    bool
	end      uint64
	endCount int
}

// Rec is a tracer that checks the task stream while it records it.
type Rec struct {
	Tasks       map[uint64]*taskRec
	KindAt      map[string]string // location -> kind
	V           *kit.Violation
	Starts      int
	Ends        int
	Tags        int
	Miles       int
	UnknownEnds int
	Kinds       map[string]int
	Lines       []string // the complete stream, for comparisons
	// NoBuffers: no buffer tracing is attached in this run. Milestones on
	// never-started tasks are then set aside as Aside (a listed known finding)
	// instead of stopping the other oracles of the run.
	NoBuffers bool
	// HasReset: the control script of the run contains a reset. A second end of
	// a task that had already ended is then set aside (listed known finding:
	// reset teardown ends tasks that completed earlier).
	HasReset bool
	Aside    *kit.Violation
}

func NewRec() *Rec {
	return &Rec{Tasks: map[uint64]*taskRec{}, KindAt: map[string]string{}, Kinds: map[string]int{}}
}

func (r *Rec) fail(sig, f string, a ...any) {
	if r.V == nil {
		r.V = kit.Violate("trace-tree", sig, f, a...)
	}
}

// history returns the recorded stream lines that mention the task.
func (r *Rec) history(id uint64) string {
	var out []string

	key := fmt.Sprintf(" %d ", id)

	for _, l := range r.Lines {
		if strings.Contains(l+" ", key) {
			out = append(out, l)
		}
	}

	if len(out) > 10 {
		out = out[:10]
	}

	return strings.Join(out, "; ")
}

func kindClass(kind string) string {
	switch kind {
	case tracing.ReqInTaskKind, tracing.ReqOutTaskKind, tracing.PipelineTaskKind:
		return kind
	}

	return "other"
}

func (r *Rec) StartTask(t tracing.TaskStart) {
	r.Starts++
	r.Kinds[t.Kind]++
	r.Lines = append(r.Lines, fmt.Sprintf("S %d p=%d %s|%s @%s t=%d", t.ID, t.ParentID, t.Kind, t.What, t.Location, t.Time))

	if t.ID == 0 {
		r.fail("C32:task-id-zero", "task %s/%s at %s started with ID 0", t.Kind, t.What, t.Location)
		return
	}

	if old, dup := r.Tasks[t.ID]; dup {
		r.fail("C32:task-started-twice["+kindClass(t.Kind)+"]", "task %d (%s/%s at %s, t=%d) is started again at t=%d as %s/%s at %s", t.ID, old.start.Kind, old.start.What, old.start.Location, old.start.Time, t.Time, t.Kind, t.What, t.Location)
		return
	}

	r.Tasks[t.ID] = &taskRec{start: t}

	if k, ok := r.KindAt[t.Location]; ok && k != t.Kind {
		r.fail("C32:location-hosts-two-kinds", "location %q hosts a %q task (ID %d, %s) although it already hosted %q tasks", t.Location, t.Kind, t.ID, t.What, k)
	}

	r.KindAt[t.Location] = t.Kind
}

func (r *Rec) EndTask(t tracing.TaskEnd) {
	r.Lines = append(r.Lines, fmt.Sprintf("E %d t=%d", t.ID, t.Time))

	task, ok := r.Tasks[t.ID]
	if !ok {
		r.UnknownEnds++ // reset paths may end tasks that were never opened
		return
	}

	r.Ends++
	task.endCount++

	if task.ended && r.HasReset {
		if r.Aside == nil {
			r.Aside = kit.Violate("trace-tree", "C32:task-ended-twice["+kindClass(task.start.Kind)+",reset-history]", "task %d (%s/%s at %s, started t=%d) ended at t=%d and again at t=%d in a run whose control script resets the component; stream: %s", t.ID, task.start.Kind, task.start.What, task.start.Location, task.start.Time, task.end, t.Time, r.history(t.ID))
		}

		return
	}

	if task.ended {
		r.fail("C32:task-ended-twice["+kindClass(task.start.Kind)+"]", "task %d (%s/%s at %s, started t=%d) ended at t=%d and again at t=%d; stream: %s", t.ID, task.start.Kind, task.start.What, task.start.Location, task.start.Time, task.end, t.Time, r.history(t.ID))
		return
	}

	task.ended, task.end = true, uint64(t.Time)

	if t.Time < task.start.Time {
		r.fail("C32:task-ends-before-start", "task %d (%s/%s) started at t=%d and ended at t=%d", t.ID, task.start.Kind, task.start.What, task.start.Time, t.Time)
	}
}

func (r *Rec) within(what string, taskID uint64, at uint64, label string) {
	task, ok := r.Tasks[taskID]
	if !ok && what == "milestone" && (strings.HasSuffix(label, ".Control") || strings.HasPrefix(label, "dependency/") && (strings.HasSuffix(label, ".Sets") || strings.HasSuffix(label, ".Table"))) {
		// TLB / MMU-cache control paths put milestones on the receiver task of a
		// control request that they never start (listed known finding)
		if r.Aside == nil {
			r.Aside = kit.Violate("trace-tree", "C32:milestone-of-unstarted-task[vm-control-request]", "milestone %q at t=%d refers to task %d, which was never started (control request handled by a TLB or MMU cache)", label, at, taskID)
		}

		return
	}

	if !ok && what == "milestone" && strings.HasPrefix(label, "data/") && strings.HasSuffix(label, ".evict") {
		// write-back cache: eviction acknowledged after the request that caused it
		// was answered (listed known finding)
		if r.Aside == nil {
			r.Aside = kit.Violate("trace-tree", "C32:milestone-of-unstarted-task[wb-evict-ack-after-response]", "milestone %q at t=%d refers to task %d, which was never started (the req_in it is meant for had already ended and been forgotten)", label, at, taskID)
		}

		return
	}

	if !ok && r.NoBuffers && what == "milestone" {
		if r.Aside == nil {
			r.Aside = kit.Violate("trace-tree", "C32:milestone-of-unstarted-task[no-buffer-tracing]", "milestone %q at t=%d refers to task %d, which was never started (component tracer attached, buffer tracing not attached)", label, at, taskID)
		}

		return
	}

	if !ok {
		r.fail("C32:"+what+"-of-unstarted-task", "%s %q at t=%d refers to task %d, which was never started", what, label, at, taskID)
		return
	}

	if at < uint64(task.start.Time) || (task.ended && at > task.end) {
		r.fail("C32:"+what+"-outside-task-lifetime["+kindClass(task.start.Kind)+"]", "%s %q at t=%d lies outside the lifetime of task %d (%s/%s at %s: started t=%d, ended=%v at t=%d)", what, label, at, taskID, task.start.Kind, task.start.What, task.start.Location, task.start.Time, task.ended, task.end)
	}
}

func (r *Rec) AddTaskTag(tag tracing.TaskTag) {
	r.Tags++
	r.Lines = append(r.Lines, fmt.Sprintf("T %d %s t=%d", tag.TaskID, tag.What, tag.Time))
	r.within("tag", tag.TaskID, uint64(tag.Time), tag.What)
}

func (r *Rec) AddMilestone(m tracing.Milestone) {
	r.Miles++
	r.Lines = append(r.Lines, fmt.Sprintf("M %d %s|%s t=%d", m.TaskID, m.Kind, m.What, m.Time))
	r.within("milestone", m.TaskID, uint64(m.Time), string(m.Kind)+"/"+m.What)
}

// Quiescent checks what must hold once the run has nothing left to do.
func (r *Rec) Quiescent(now uint64) {
	var open []uint64

	for id, t := range r.Tasks {
		if !t.ended {
			open = append(open, id)
		}
	}

	if len(open) == 0 {
		return
	}

	sort.Slice(open, func(i, j int) bool { return open[i] < open[j] })
	t := r.Tasks[open[0]]
	by := map[string]int{}

	for _, id := range open {
		o := r.Tasks[id]
		by[o.start.Kind+"/"+o.start.What+"@"+o.start.Location]++
	}

	defer func() {
		if r.V != nil {
			r.V.Detail += fmt.Sprintf("; open tasks by kind/what@location: %v", by)
		}
	}()

	r.fail("C32:task-never-ended["+kindClass(t.start.Kind)+"]", "the run is quiescent at t=%d and %d task(s) never ended; first: task %d (%s/%s at %s, started t=%d)", now, len(open), open[0], t.start.Kind, t.start.What, t.start.Location, t.start.Time)
}

// AttachAll attaches the recorder to every domain and buffer tracing to every
// port of those domains (ports are matched by their name prefix).
func AttachAll(r *Rec, domains []tracing.NamedHookable, ports map[string]messaging.Port, buffers bool) {
	for _, d := range domains {
		tracing.CollectTrace(d, r)
	}

	if !buffers {
		return
	}

	names := make([]string, 0, len(ports))
	for n := range ports {
		names = append(names, n)
	}

	sort.Strings(names)

	for _, n := range names {
		for _, d := range domains {
			if len(n) > len(d.Name()) && n[:len(d.Name())+1] == d.Name()+"." {
				tracing.CollectIncomingBufferTrace(ports[n])
				tracing.CollectOutgoingBufferTrace(ports[n])
			}
		}
	}
}
