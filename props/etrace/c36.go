package etrace

import (
	"database/sql"
	"fmt"
	"os"
	"path/filepath"
	"sort"

	_ "github.com/glebarez/go-sqlite"
	"github.com/sarchlab/akita/v5/hooking"
	"github.com/sarchlab/akita/v5/simulation"
	"github.com/sarchlab/akita/v5/timing"
	"github.com/sarchlab/akita/v5/tracing"

	"verif/sim/kit"
)

// DEv is one call made on the DB tracer.
type DEv struct {
	Op   string `json:"op"` // start end tag mile on off
	ID   uint64 `json:"id,omitempty"`
	T    uint64 `json:"t"`
	What string `json:"what,omitempty"`
}

type T36 struct {
	Evs []DEv `json:"evs"`
	// Via is how the events reach the tracer: 0 by calling it, 1 through the hook
	// that tracing.CollectTrace installs on a component, 2 through a component
	// registered with a real simulation.Simulation (its tracer, engine clock and
	// SQLite recorder)
	Via int `json:"via,omitempty"`
}

// dom36 is the component the task events belong to.
type dom36 struct {
	*hooking.HookableBase
	clk timing.TimeTeller
}

func (d *dom36) Name() string                       { return "Comp" }
func (d *dom36) CurrentTime() timing.VTimeInPicoSec { return d.clk.CurrentTime() }

type ev36 struct {
	t   timing.VTimeInPicoSec
	act func()
}

func (e ev36) Time() timing.VTimeInPicoSec { return e.t }
func (e ev36) HandlerID() string           { return "verif36" }
func (e ev36) IsSecondary() bool           { return false }

type h36 struct{}

func (h36) Handle(e timing.Event) error { e.(ev36).act(); return nil }

var sim36Seq int

type clock struct{ now timing.VTimeInPicoSec }

func (c *clock) CurrentTime() timing.VTimeInPicoSec { return c.now }

func genT36(r *kit.Rand, tier kit.Tier) T36 {
	n := r.Range(2, 25)
	if tier == kit.Thorough {
		n = r.Range(2, 90)
	}

	var c T36

	t := uint64(0)
	next := uint64(1)
	open := []uint64{}
	on := false

	var ended []uint64

	for i := 0; i < n; i++ {
		t += uint64(r.PickInt(0, 0, 1, 1, 3, 10))

		// now and then: a second end for a task that has already ended (reset
		// teardown paths emit those), or a tag / milestone that reaches the tracer
		// just before the start event of its task
		if len(ended) > 0 && r.Chance(1, 12) {
			c.Evs = append(c.Evs, DEv{Op: "end", ID: ended[r.Intn(len(ended))], T: t})
			continue
		}

		if r.Chance(1, 12) {
			op := []string{"tag", "mile"}[r.Intn(2)]
			c.Evs = append(c.Evs, DEv{Op: op, ID: next, T: t, What: "early"}, DEv{Op: "start", ID: next, T: t, What: "read"})
			open = append(open, next)
			next++

			continue
		}

		switch k := r.Weighted(5, 4, 3, 3, 2); {
		case k == 0 || len(open) == 0 && k != 4:
			c.Evs = append(c.Evs, DEv{Op: "start", ID: next, T: t, What: []string{"read", "write", "it's"}[r.Intn(3)]})
			open = append(open, next)
			next++
		case k == 1:
			j := r.Intn(len(open))
			c.Evs = append(c.Evs, DEv{Op: "end", ID: open[j], T: t})
			ended = append(ended, open[j])
			open = append(open[:j], open[j+1:]...)
		case k == 2:
			c.Evs = append(c.Evs, DEv{Op: "tag", ID: open[r.Intn(len(open))], T: t, What: []string{"hit", "miss"}[r.Intn(2)]})
		case k == 3:
			c.Evs = append(c.Evs, DEv{Op: "mile", ID: open[r.Intn(len(open))], T: t, What: []string{"queue", "data", "work"}[r.Intn(3)]})
		default:
			if on {
				c.Evs = append(c.Evs, DEv{Op: "off", T: t})
			} else {
				c.Evs = append(c.Evs, DEv{Op: "on", T: t})
			}

			on = !on
		}
	}

	// most streams end with every task ended; some leave tasks running at termination
	if r.Chance(3, 4) {
		for _, id := range open {
			t += uint64(r.Intn(3))
			c.Evs = append(c.Evs, DEv{Op: "end", ID: id, T: t})
		}
	}

	c.Via = r.Weighted(2, 2, 1)

	return c
}

func execT36(c T36, env *kit.Env) kit.Outcome {
	var out kit.Outcome

	clk := &clock{}
	rec := NewMemRecorder()

	var (
		db   *tracing.DBTracer
		dom  *dom36
		sim  *simulation.Simulation
		path string
		acts []ev36
		now  = func() timing.VTimeInPicoSec { return clk.now }
	)

	switch c.Via {
	case 0:
		db = tracing.NewDBTracer(clk, rec)
	case 1:
		db = tracing.NewDBTracer(clk, rec)
		dom = &dom36{HookableBase: hooking.NewHookableBase(), clk: clk}
		tracing.CollectTrace(dom, db)
	default:
		sim36Seq++
		path = filepath.Join("/dev/shm", "verif-"+filepath.Base(env.Scratch), fmt.Sprintf("c36-%d", sim36Seq))
		_ = os.MkdirAll(filepath.Dir(path), 0o755)

		defer os.Remove(path + ".sqlite3")

		sim = simulation.MakeBuilder().WithoutMonitoring().WithOutputFileName(path).Build()
		eng := sim.GetEngine()
		eng.(timing.HandlerRegistrar).RegisterHandler("verif36", h36{})
		dom = &dom36{HookableBase: hooking.NewHookableBase(), clk: eng}
		sim.RegisterComponent(dom)
		db = sim.GetVisTracer()
		now = eng.CurrentTime
	}

	// deliver hands one task event to the tracer the way the case says
	deliver := func(pos *hooking.HookPos, item any) {
		if dom != nil {
			dom.InvokeHook(hooking.HookCtx{Domain: dom, Pos: pos, Item: item})
			return
		}

		switch v := item.(type) {
		case tracing.TaskStart:
			db.StartTask(v)
		case tracing.TaskEnd:
			db.EndTask(v)
		case tracing.TaskTag:
			db.AddTaskTag(v)
		case tracing.Milestone:
			db.AddMilestone(v)
		}
	}

	// do runs the call now (the harness clock is already at the event's time) or
	// leaves it to an engine event of the simulation
	do := func(t uint64, f func()) {
		if sim == nil {
			f()
			return
		}

		acts = append(acts, ev36{timing.VTimeInPicoSec(t), f})
	}

	type mtask struct {
		start   DEv
		record  bool
		tags    []string
		miles   []string
		mileAt  map[uint64]bool
		running bool
		started bool
	}

	tasks := map[uint64]*mtask{}

	var wantTasks, wantTags, wantMiles, wantSegs []string

	on, onAt := false, uint64(0)
	sideID := uint64(100000)

	for _, e := range c.Evs {
		clk.now = timing.VTimeInPicoSec(e.T)

		switch e.Op {
		case "start":
			loc := fmt.Sprintf("Comp%d.req_in", e.ID%3)
			e := e
			do(e.T, func() {
				deliver(tracing.HookPosTaskStart, tracing.TaskStart{ID: e.ID, ParentID: e.ID / 2, Kind: "req_in", What: e.What, Location: loc, Time: now()})
			})

			if early := tasks[e.ID]; early != nil && !early.started {
				early.start, early.record, early.running, early.started = e, on, true, true
			} else {
				tasks[e.ID] = &mtask{start: e, record: on, running: true, started: true, mileAt: map[uint64]bool{}}
			}
		case "end":
			e := e
			do(e.T, func() { deliver(tracing.HookPosTaskEnd, tracing.TaskEnd{ID: e.ID, Time: now()}) })

			m := tasks[e.ID]
			if !m.running {
				continue // a second end of a task that has already ended: nothing more may be recorded
			}

			m.running = false

			if m.record {
				wantTasks = append(wantTasks, fmt.Sprintf("{ID:%d ParentID:%d Kind:req_in What:%s Location:Comp%d.req_in StartTime:%v EndTime:%v}", e.ID, e.ID/2, m.start.What, e.ID%3, float64(m.start.T), float64(e.T)))
				wantTags = append(wantTags, m.tags...)
				wantMiles = append(wantMiles, m.miles...)
			}
		case "tag":
			if tasks[e.ID] == nil {
				tasks[e.ID] = &mtask{mileAt: map[uint64]bool{}} // reaches the tracer before the start event
			}

			sideID++
			e, id := e, sideID
			do(e.T, func() {
				deliver(tracing.HookPosTaskTag, tracing.TaskTag{ID: id, TaskID: e.ID, What: e.What, Time: now()})
			})
			tasks[e.ID].tags = append(tasks[e.ID].tags, fmt.Sprintf("{ID:%d TaskID:%d Time:%v What:%s}", sideID, e.ID, float64(e.T), e.What))
		case "mile":
			if tasks[e.ID] == nil {
				tasks[e.ID] = &mtask{mileAt: map[uint64]bool{}}
			}

			sideID++
			e, id := e, sideID
			do(e.T, func() {
				deliver(tracing.HookPosMilestone, tracing.Milestone{ID: id, TaskID: e.ID, Time: now(), Kind: tracing.MilestoneKindQueue, What: e.What})
			})

			if m := tasks[e.ID]; !m.mileAt[e.T] {
				m.mileAt[e.T] = true
				m.miles = append(m.miles, fmt.Sprintf("{ID:%d TaskID:%d Time:%v Kind:queue What:%s}", sideID, e.ID, float64(e.T), e.What))
			}
		case "on":
			do(e.T, db.StartTracing)

			on, onAt = true, e.T

			for _, m := range tasks {
				if m.running {
					m.record = true
				}
			}
		case "off":
			do(e.T, db.StopTracing)

			on = false
			wantSegs = append(wantSegs, fmt.Sprintf("{StartTime:%v EndTime:%v}", float64(onAt), float64(e.T)))
		}
	}

	if sim != nil {
		for _, a := range acts {
			sim.GetEngine().Schedule(a)
		}

		if err := sim.GetEngine().Run(); err != nil {
			panic(kit.HarnessError(err.Error()))
		}

		sim.Terminate()
	} else {
		db.Terminate()
	}

	if on {
		wantSegs = append(wantSegs, fmt.Sprintf("{StartTime:%v EndTime:%v}", float64(onAt), float64(clk.now)))
	}

	render := func(table string) []string {
		var l []string

		if sim != nil {
			l = readSim36(path+".sqlite3", table)
		}

		for _, e := range rec.Tables[table] {
			l = append(l, fmt.Sprintf("%+v", e))
		}

		sort.Strings(l)

		return l
	}

	for _, cmp := range []struct {
		what, table string
		want        []string
	}{{"task", "trace", wantTasks}, {"tag", "tag", wantTags}, {"milestone", "milestone", wantMiles}, {"segment", "daisen$segments", wantSegs}} {
		w := append([]string(nil), cmp.want...)
		sort.Strings(w)

		if d := multisetDiff(w, render(cmp.table)); d != "" {
			out.Violation = kit.Violate("trace-db", "C36:"+cmp.what+"-rows-differ", "%s table after Terminate: %s", cmp.table, d)
			return out
		}
	}

	windows := len(wantSegs)
	out.Steps = uint64(len(c.Evs))
	out.Fault("tracing-window", windows)
	out.Probe("tasks-recorded", len(wantTasks))
	out.Probe("tasks-not-recorded", len(tasks)-len(wantTasks))
	out.NonTrivial = len(wantTasks) >= 1 && len(tasks) > len(wantTasks)
	out.Shape = fmt.Sprint(c.Via, c.Evs)
	out.Probe([]string{"delivered-by-direct-call", "delivered-through-CollectTrace-hook", "delivered-through-simulation"}[min(c.Via, 2)], 1)
	out.Sample = map[string]any{"via": c.Via, "calls": len(c.Evs), "tasks": len(tasks), "recorded": len(wantTasks), "windows": windows}

	return out
}

// readSim36 renders the rows of one tracer table of the simulation's SQLite
// output the way the in-memory recorder's entries print.
func readSim36(file, table string) []string {
	db, err := sql.Open("sqlite", file)
	if err != nil {
		panic(kit.HarnessError("cannot open the simulation's trace database: " + err.Error()))
	}

	defer db.Close()

	var l []string

	q := map[string]string{
		"trace":           "SELECT t.ID, t.ParentID, t.Kind, t.What, l.Locale, t.StartTime, t.EndTime FROM trace t JOIN location l ON t.Location = l.ID",
		"tag":             "SELECT ID, TaskID, Time, What FROM tag",
		"milestone":       "SELECT ID, TaskID, Time, Kind, What FROM milestone",
		"daisen$segments": "SELECT StartTime, EndTime FROM \"daisen$segments\"",
	}[table]

	rows, err := db.Query(q)
	if err != nil {
		panic(kit.HarnessError("reading " + table + ": " + err.Error()))
	}

	defer rows.Close()

	for rows.Next() {
		var (
			id, pid, task   uint64
			kind, what, loc string
			t0, t1          float64
		)

		switch table {
		case "trace":
			_ = rows.Scan(&id, &pid, &kind, &what, &loc, &t0, &t1)
			l = append(l, fmt.Sprintf("{ID:%d ParentID:%d Kind:%s What:%s Location:%s StartTime:%v EndTime:%v}", id, pid, kind, what, loc, t0, t1))
		case "tag":
			_ = rows.Scan(&id, &task, &t0, &what)
			l = append(l, fmt.Sprintf("{ID:%d TaskID:%d Time:%v What:%s}", id, task, t0, what))
		case "milestone":
			_ = rows.Scan(&id, &task, &t0, &kind, &what)
			l = append(l, fmt.Sprintf("{ID:%d TaskID:%d Time:%v Kind:%s What:%s}", id, task, t0, kind, what))
		default:
			_ = rows.Scan(&t0, &t1)
			l = append(l, fmt.Sprintf("{StartTime:%v EndTime:%v}", t0, t1))
		}
	}

	return l
}

func multisetDiff(want, got []string) string {
	count := map[string]int{}
	for _, w := range want {
		count[w]++
	}

	for _, g := range got {
		count[g]--
	}

	var missing, extra []string

	for k, v := range count {
		switch {
		case v > 0:
			missing = append(missing, fmt.Sprintf("%s (x%d)", k, v))
		case v < 0:
			extra = append(extra, fmt.Sprintf("%s (x%d)", k, -v))
		}
	}

	if len(missing) == 0 && len(extra) == 0 {
		return ""
	}

	sort.Strings(missing)
	sort.Strings(extra)

	if len(missing) > 4 {
		missing = missing[:4]
	}

	if len(extra) > 4 {
		extra = extra[:4]
	}

	return fmt.Sprintf("%d expected, %d present; missing: %v; unexpected or duplicated: %v", len(want), len(got), missing, extra)
}

func init() {
	kit.Register(kit.Spec[T36]{
		ID: "C36", Level: "exploration",
		Rule:        "generated call sequences on the real DBTracer (task starts/ends, second ends of tasks that already ended, tags and milestones inside lifetimes incl. several milestones at one instant and some arriving just before their task's start event, StartTracing/StopTracing windows opening and closing anywhere, tasks left running at Terminate) over an in-memory DataRecorder and a settable clock; the events reach the tracer by direct call (2 in 5), through the hook tracing.CollectTrace installs on a component (2 in 5), or through a component registered with a real simulation.Simulation built WithoutMonitoring, driven by engine events, recorded by its SQLite recorder and read back with SQL (1 in 5); a reference decides which tasks must be recorded (tracing on at start, or a window opened while running, and ended before Terminate) with which tags, de-duplicated milestones and segments; the four tables must equal the expected multisets; distinct = call sequence; non-trivial = some tasks recorded and some not",
		Assumptions: []string{"StartTracing and StopTracing alternate (a window is opened before it is closed)", "the SQLite recorder underneath is C35's subject and is replaced by an in-memory recorder here"},
		Real:        []string{"tracing/dbtracer.go", "tracing/tracehook.go (CollectTrace)", "simulation.Simulation (RegisterComponent, GetVisTracer, Terminate), serial engine and SQLite data recorder in the third delivery mode"},
		Stubs:       []string{"in-memory DataRecorder", "settable clock", "call-sequence generator"},
		FaultKinds:  []string{"tracing-window"},
		Quick:       kit.Budget{Runs: 20000, WallS: 60},
		Thorough:    kit.Budget{Runs: 2000000, WallS: 900},
		Gen:         genT36, Exec: execT36,
		Shrink: func(c T36) []T36 {
			var out []T36

			if c.Via > 0 {
				out = append(out, T36{Evs: c.Evs, Via: c.Via - 1}) // a simpler way of delivery
			}

			for _, l := range kit.ListShrinks(c.Evs) {
				// keep the sequence well formed: every referenced task started before and not ended
				ok := true
				open := map[uint64]bool{}
				everStarted := map[uint64]bool{}
				on := false

				for k, e := range l {
					switch e.Op {
					case "start":
						open[e.ID] = true
						everStarted[e.ID] = true
					case "end", "tag", "mile":
						early := e.Op != "end" && !everStarted[e.ID] && k+1 < len(l) && l[k+1].Op == "start" && l[k+1].ID == e.ID
						dupEnd := e.Op == "end" && everStarted[e.ID] && !open[e.ID]

						if !open[e.ID] && !early && !dupEnd {
							ok = false
						}

						if e.Op == "end" {
							delete(open, e.ID)
						}
					case "on":
						if on {
							ok = false
						}

						on = true
					case "off":
						if !on {
							ok = false
						}

						on = false
					}
				}

				if ok {
					out = append(out, T36{Evs: l, Via: c.Via})
				}
			}

			return out
		},
	})
}
