package etrace

import (
	"fmt"
	"sort"

	"github.com/sarchlab/akita/v5/timing"
	"github.com/sarchlab/akita/v5/tracing"

	"verif/sim/kit"
)

// TEv is one event of a task stream.
type TEv struct {
	Kind string `json:"kind"` // start end tag
	ID   uint64 `json:"id"`
	T    uint64 `json:"t"`
	TK   string `json:"tk,omitempty"`  // task kind (start)
	Tag  string `json:"tag,omitempty"` // tag name
}

type T34 struct {
	Evs    []TEv  `json:"evs"`
	Filter string `json:"filter"` // "" = all tasks, otherwise only tasks of this kind
}

func genT34(r *kit.Rand, tier kit.Tier) T34 {
	n := r.Range(1, 8)
	if tier == kit.Thorough {
		n = r.Range(1, 30)
	}

	c := T34{Filter: []string{"", "", "req_in", "work"}[r.Intn(4)]}
	kinds := []string{"req_in", "req_in", "work", "req_out"}
	tags := []string{"hit", "miss", "x"}
	style := r.Intn(4) // 0 mixed, 1 chained overlaps, 2 nested, 3 disjoint
	t := uint64(r.PickInt(0, 0, 5, 1000))

	type iv struct{ s, e uint64 }

	var ivs []iv

	for i := 0; i < n; i++ {
		d := uint64(r.PickInt(0, 1, 1, 2, 3, 7, 10, 1000, 999983))

		var s uint64

		switch style {
		case 1: // each starts inside the previous one and ends after it
			if len(ivs) > 0 {
				p := ivs[len(ivs)-1]
				s = p.s + (p.e-p.s)*uint64(r.Range(1, 3))/3
				d += p.e - s
				d += uint64(r.Intn(3))
			}
		case 2:
			if len(ivs) > 0 {
				p := ivs[len(ivs)-1]
				s = p.s + uint64(r.Intn(2))
				if p.e > s {
					d = (p.e - s) * uint64(r.Range(0, 3)) / 3
				} else {
					d = 0
				}
			}
		case 3:
			if len(ivs) > 0 {
				s = ivs[len(ivs)-1].e + uint64(r.PickInt(0, 1, 5))
			}
		default:
			if len(ivs) > 0 {
				s = ivs[r.Intn(len(ivs))].s + uint64(r.PickInt(0, 1, 2, 5, 9, 20))
			}
		}

		if i == 0 {
			s = t
		}

		ivs = append(ivs, iv{s, s + d})
	}

	for i, v := range ivs {
		id := uint64(i + 1)
		c.Evs = append(c.Evs, TEv{Kind: "start", ID: id, T: v.s, TK: kinds[r.Intn(len(kinds))]}, TEv{Kind: "end", ID: id, T: v.e})

		for k := 0; k < r.Weighted(3, 2, 1, 1); k++ {
			tt := v.s
			if v.e > v.s {
				tt += uint64(r.Intn(int(min(v.e-v.s, 1000)) + 1))
			}

			c.Evs = append(c.Evs, TEv{Kind: "tag", ID: id, T: tt, Tag: tags[r.Intn(len(tags))]})
		}
	}

	// time order; at equal times: starts, then tags, then ends
	rank := map[string]int{"start": 0, "tag": 1, "end": 2}

	sort.SliceStable(c.Evs, func(i, j int) bool {
		a, b := c.Evs[i], c.Evs[j]
		if a.T != b.T {
			return a.T < b.T
		}

		return rank[a.Kind] < rank[b.Kind]
	})

	return c
}

func execT34(c T34, _ *kit.Env) kit.Outcome {
	var out kit.Outcome

	filter := func(t tracing.TaskStart) bool { return c.Filter == "" || t.Kind == c.Filter }
	total := tracing.NewTotalTimeTracer(filter)
	avg := tracing.NewAverageTimeTracer(filter)
	busy := tracing.NewBusyTimeTracer(filter)
	tagc := tracing.NewTagCountTracer(filter)
	all := []tracing.Tracer{total, avg, busy, tagc}

	// reference
	type ref struct {
		start   uint64
		tracked bool
		open    bool
		tags    map[string]bool
	}

	tasks := map[uint64]*ref{}
	sum, count := uint64(0), uint64(0)
	tagCount, taskCount := map[string]uint64{}, map[string]uint64{}

	var ivs [][2]uint64

	inflight := 0

	fail := func(sig, f string, a ...any) {
		if out.Violation == nil {
			out.Violation = kit.Violate("aggregate-tracers", sig, f, a...)
		}
	}

	union := func() uint64 {
		s := append([][2]uint64(nil), ivs...)
		sort.Slice(s, func(i, j int) bool { return s[i][0] < s[j][0] })

		var u, hi uint64

		started := false

		for _, v := range s {
			if !started || v[0] > hi {
				u += v[1] - v[0]
				hi, started = v[1], true
			} else if v[1] > hi {
				u += v[1] - hi
				hi = v[1]
			}
		}

		return u
	}

	for i, e := range c.Evs {
		switch e.Kind {
		case "start":
			ts := tracing.TaskStart{ID: e.ID, Kind: e.TK, What: "w", Time: timing.VTimeInPicoSec(e.T)}
			for _, t := range all {
				t.StartTask(ts)
			}

			tasks[e.ID] = &ref{start: e.T, tracked: filter(ts), open: true, tags: map[string]bool{}}
			if tasks[e.ID].tracked {
				inflight++
			}
		case "tag":
			for _, t := range all {
				t.AddTaskTag(tracing.TaskTag{ID: uint64(1000 + i), TaskID: e.ID, What: e.Tag, Time: timing.VTimeInPicoSec(e.T)})
			}

			tagCount[e.Tag]++

			if r, ok := tasks[e.ID]; ok && r.tracked && r.open && !r.tags[e.Tag] {
				r.tags[e.Tag] = true
				taskCount[e.Tag]++
			}
		case "end":
			for _, t := range all {
				t.EndTask(tracing.TaskEnd{ID: e.ID, Time: timing.VTimeInPicoSec(e.T)})
			}

			if r, ok := tasks[e.ID]; ok && r.open {
				r.open = false

				if r.tracked {
					sum += e.T - r.start
					count++
					inflight--

					ivs = append(ivs, [2]uint64{r.start, e.T})
				}
			}
		}

		// compare after every event
		if got := uint64(total.TotalTime()); got != sum {
			fail("C34:total-time-wrong", "after event %d (%+v): TotalTime()=%d, the filtered tasks that ended sum to %d", i, e, got, sum)
		}

		if count > 0 {
			if got, want := uint64(avg.AverageTime()), sum/count; got != want {
				fail("C34:average-time-wrong", "after event %d (%+v): AverageTime()=%d, sum/count = %d/%d = %d", i, e, got, sum, count, want)
			}
		}

		if got := avg.TotalCount(); got != count {
			fail("C34:average-count-wrong", "after event %d: TotalCount()=%d, %d filtered tasks ended", i, got, count)
		}

		if inflight == 0 {
			if got, want := uint64(busy.BusyTime()), union(); got != want {
				fail("C34:busy-time-wrong", "after event %d (%+v, no task in flight): BusyTime()=%d, the union of the %d ended intervals %v is %d long", i, e, got, len(ivs), clipIvs(ivs), want)
			}
		}

		for name, n := range tagCount {
			if got := tagc.GetTagCount(name); got != n {
				fail("C34:tag-count-wrong", "after event %d: GetTagCount(%q)=%d, %d recorded", i, name, got, n)
			}

			if got := tagc.GetTaskCount(name); got != taskCount[name] {
				fail("C34:tag-task-count-wrong", "after event %d: GetTaskCount(%q)=%d, %d distinct tracked tasks carried it", i, name, got, taskCount[name])
			}
		}

		if out.Violation != nil {
			return out
		}
	}

	out.Steps = uint64(len(c.Evs))
	out.NonTrivial = count >= 2
	out.Shape = fmt.Sprint(c)
	out.Probe("overlapping-streams", btoi(len(ivs) >= 2 && union() < sum))
	out.Sample = map[string]any{"events": len(c.Evs), "tracked_tasks": count, "sum": sum, "union": union()}

	return out
}

func clipIvs(v [][2]uint64) [][2]uint64 {
	if len(v) > 8 {
		return v[:8]
	}

	return v
}

func init() {
	kit.Register(kit.Spec[T34]{
		ID: "C34", Level: "exploration",
		Rule:        "generated task streams in time order (mixed, chained-overlap, nested and disjoint interval families; durations 0..999983; tags inside lifetimes; kind filters) are fed to the real total-, average-, busy-time and tag-count tracers and to a reference (sum, floor(sum/count), interval union by sweep, tag tallies); getters are compared after every event (busy time whenever no tracked task is in flight); distinct = stream; non-trivial = >= 2 tracked tasks",
		Assumptions: []string{"events are delivered in non-decreasing time order, starts before tags before ends at equal times, as the property states"},
		Real:        []string{"tracing/totaltimetracer.go", "tracing/averagetimetracer.go", "tracing/busytimetracer.go", "tracing/tagcounttracer.go"},
		Stubs:       []string{"event stream generator instead of a simulation"},
		FaultKinds:  []string{},
		Quick:       kit.Budget{Runs: 20000, WallS: 60},
		Thorough:    kit.Budget{Runs: 3000000, WallS: 900},
		Gen:         genT34, Exec: execT34,
		Shrink: func(c T34) []T34 {
			var out []T34

			for _, l := range kit.ListShrinks(c.Evs) {
				q := c
				q.Evs = l
				out = append(out, q)
			}

			if c.Filter != "" {
				q := c
				q.Filter = ""
				out = append(out, q)
			}

			return out
		},
	})
}
