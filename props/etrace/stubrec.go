package etrace

import "fmt"

// MemRecorder is an in-memory datarecording.DataRecorder.
type MemRecorder struct {
	Tables  map[string][]any
	Order   []string
	Flushes int
	Closed  bool
}

func NewMemRecorder() *MemRecorder { return &MemRecorder{Tables: map[string][]any{}} }

func (m *MemRecorder) CreateTable(name string, _ any) {
	if _, dup := m.Tables[name]; dup {
		panic(fmt.Sprintf("table %s already exists", name))
	}

	m.Tables[name] = nil
	m.Order = append(m.Order, name)
}

func (m *MemRecorder) InsertData(name string, entry any) {
	if _, ok := m.Tables[name]; !ok {
		panic(fmt.Sprintf("table %s does not exist", name))
	}

	m.Tables[name] = append(m.Tables[name], entry)
}

func (m *MemRecorder) ListTables() []string { return append([]string(nil), m.Order...) }
func (m *MemRecorder) Flush()               { m.Flushes++ }
func (m *MemRecorder) Close() error         { m.Closed = true; return nil }
