package enoc

import (
	"github.com/sarchlab/akita/v5/tracing"

	"verif/sim/kit"
)

// NetRec is a minimal tracer used to run endpoints with hooks attached.
type NetRec struct {
	V      *kit.Violation
	Starts int
}

func NewNetRec() *NetRec { return &NetRec{} }

func (r *NetRec) StartTask(tracing.TaskStart)    { r.Starts++ }
func (r *NetRec) EndTask(tracing.TaskEnd)        {}
func (r *NetRec) AddTaskTag(tracing.TaskTag)     {}
func (r *NetRec) AddMilestone(tracing.Milestone) {}
