package enoc

import (
	"fmt"
	"strings"

	"github.com/sarchlab/akita/v5/messaging"
	"github.com/sarchlab/akita/v5/noc/networking/networkconnector"
	"github.com/sarchlab/akita/v5/noc/networking/routing"
	"github.com/sarchlab/akita/v5/noc/networking/switching/switches"
	"github.com/sarchlab/akita/v5/timing"

	"verif/sim/kit"
)

// R30 is a routing-table case: a topology (no traffic) and, for the generic
// connector, an earlier network built with the same connector.
type R30 struct {
	Net   Net  `json:"net"`
	Prev  *Net `json:"prev,omitempty"`  // built first with the same connector
	Prev2 *Net `json:"prev2,omitempty"` // and another one before that
}

// graph is the built network as the switches describe it.
type graph struct {
	sw      []*switches.Comp
	byLocal map[string]int    // local port name -> switch index
	peer    map[string]string // local port name -> remote port name
	epOf    map[string]string // endpoint network port name -> endpoint name
}

func (w *World) graph(prefix string) *graph {
	g := &graph{byLocal: map[string]int{}, peer: map[string]string{}, epOf: map[string]string{}}

	for _, s := range w.SwitchComps() {
		if !strings.HasPrefix(s.Name(), prefix+".") {
			continue
		}

		idx := len(g.sw)
		g.sw = append(g.sw, s)

		for _, pc := range s.State.PortComplexes {
			g.byLocal[pc.LocalPortName] = idx
			g.peer[pc.LocalPortName] = string(pc.RemotePort)
		}
	}

	for _, e := range w.EndPoints() {
		if strings.HasPrefix(e.Name(), prefix+".") {
			g.epOf[e.NetworkPort().Name()] = e.Name()
		}
	}

	return g
}

// walk follows the tables from switch s to the device port and returns the
// switches visited and the endpoint reached.
func (g *graph) walk(tables []routing.Table, s int, dst messaging.RemotePort) (path []int, ep string, err string) {
	cur := s

	for {
		path = append(path, cur)

		if len(path) > len(g.sw)+1 {
			return path, "", "loops"
		}

		var t routing.Table
		if tables != nil {
			t = tables[cur]
		} else {
			t = switches.GetRoutingTable(g.sw[cur])
		}

		out := string(t.FindPort(dst))
		if out == "" {
			return path, "", "has no route"
		}

		if owner, ok := g.byLocal[out]; !ok || owner != cur {
			return path, "", fmt.Sprintf("routes to %q, which is not one of its ports", out)
		}

		peer := g.peer[out]

		if ep, isEP := g.epOf[peer]; isEP {
			return path, ep, ""
		}

		next, ok := g.byLocal[peer]
		if !ok {
			return path, "", fmt.Sprintf("routes over %q to %q, which belongs to no switch or endpoint of the network", out, peer)
		}

		cur = next
	}
}

func bfs(n int, links [][2]int, from int) []int {
	adj := make([][]int, n)
	for _, l := range links {
		adj[l[0]] = append(adj[l[0]], l[1])
		adj[l[1]] = append(adj[l[1]], l[0])
	}

	dist := make([]int, n)
	for i := range dist {
		dist[i] = -1
	}

	dist[from] = 0
	q := []int{from}

	for len(q) > 0 {
		x := q[0]
		q = q[1:]

		for _, y := range adj[x] {
			if dist[y] < 0 {
				dist[y] = dist[x] + 1
				q = append(q, y)
			}
		}
	}

	return dist
}

// checkGeneric walks every (switch, device port) pair of a generic network.
func checkGeneric(w *World, tables []routing.Table, prefix, how string) (*kit.Violation, []string) {
	c := w.C
	g := w.graph(prefix)

	if len(g.sw) != c.Switches {
		panic(kit.HarnessError(fmt.Sprintf("found %d switches named %s.*, built %d", len(g.sw), prefix, c.Switches)))
	}

	var lines []string

	for s := 0; s < c.Switches; s++ {
		dist := bfs(c.Switches, c.Links, s)

		for di, d := range w.Devs {
			for pi, p := range d.ports {
				path, ep, err := g.walk(tables, s, p.AsRemote())
				lines = append(lines, fmt.Sprintf("%d->%d.%d:%v", s, di, pi, path))

				if err != "" {
					return kit.Violate("routing", "C30:route-broken["+how+"]", "%s: from switch %d towards device %d port %d the tables give path %v, where switch %d %s (%s)", how, s, di, pi, path, path[len(path)-1], err, Describe(c)), lines
				}

				if want := fmt.Sprintf("%s.EndPoint[%d]", prefix, di); ep != want {
					return kit.Violate("routing", "C30:route-reaches-wrong-device["+how+"]", "%s: from switch %d towards device %d port %d the tables lead along %v to %s", how, s, di, pi, path, ep), lines
				}

				if want := dist[c.Devs[di].At] + 1; len(path) != want {
					return kit.Violate("routing", "C30:route-not-shortest["+how+"]", "%s: from switch %d to device %d (at switch %d) the tables visit switches %v, %d hops, the shortest route has %d (%s)", how, s, di, c.Devs[di].At, path, len(path), want, Describe(c)), lines
				}
			}
		}
	}

	return nil, lines
}

func checkMesh(w *World) *kit.Violation {
	g := w.graph("Mesh")
	pos := map[string][3]int{}

	for i, s := range g.sw {
		var x, y, z int

		if _, err := fmt.Sscanf(s.Name(), "Mesh.SW[%d][%d][%d]", &x, &y, &z); err != nil {
			panic(kit.HarnessError("unexpected mesh switch name " + s.Name()))
		}

		pos[fmt.Sprint(i)] = [3]int{x, y, z}
	}

	abs := func(a int) int {
		if a < 0 {
			return -a
		}

		return a
	}

	for s := range g.sw {
		from := pos[fmt.Sprint(s)]

		for di, d := range w.Devs {
			to := w.C.Devs[di].Tile

			for pi, p := range d.ports {
				path, ep, err := g.walk(nil, s, p.AsRemote())
				if err != "" {
					return kit.Violate("routing", "C30:mesh-route-broken", "from tile %v towards device %d port %d at tile %v the mesh tables give switch path %v, where the last switch %s (%s)", from, di, pi, to, path, err, Describe(w.C))
				}

				if want := fmt.Sprintf("Mesh.EP[%d][%d][%d]", to[0], to[1], to[2]); ep != want {
					return kit.Violate("routing", "C30:mesh-route-reaches-wrong-tile", "from tile %v towards tile %v the mesh tables lead to %s", from, to, ep)
				}

				if want := abs(from[0]-to[0]) + abs(from[1]-to[1]) + abs(from[2]-to[2]); len(path)-1 != want {
					return kit.Violate("routing", "C30:mesh-route-not-manhattan", "from tile %v to tile %v the mesh tables take %d switch-to-switch hops (%v), the Manhattan distance is %d", from, to, len(path)-1, path, want)
				}
			}
		}
	}

	return nil
}

func genR30(r *kit.Rand, tier kit.Tier) R30 {
	c := R30{}

	if r.Chance(1, 3) {
		c.Net = GenNet(r, tier, "mesh")
		c.Net.Msgs = nil

		return c
	}

	c.Net = GenNet(r, tier, "generic")
	c.Net.Msgs = nil

	if r.Chance(1, 2) {
		p := GenNet(r, tier, "generic")
		p.Msgs = nil
		c.Prev = &p

		if r.Chance(1, 3) {
			p2 := GenNet(r, tier, "generic")
			p2.Msgs = nil
			c.Prev2 = &p2
		}
	}

	return c
}

func execR30(c R30, _ *kit.Env) kit.Outcome {
	var out kit.Outcome

	if c.Net.Kind == "mesh" {
		w := Build(&c.Net)
		out.Violation = checkMesh(w)
		out.NonTrivial = len(w.SwitchComps()) >= 2
		out.Shape = Describe(&c.Net)
		out.Probe("mesh", 1)
		out.Sample = map[string]any{"network": Describe(&c.Net)}

		return out
	}

	// fresh connector
	fresh := Build(&c.Net)

	v, freshLines := checkGeneric(fresh, fresh.Tables, "Net", "fresh connector")
	if v != nil {
		out.Violation = v
		return out
	}

	reused := 0

	if c.Prev != nil {
		// one connector, several networks in a row: the last one is the case's network
		seq := []*Net{c.Prev}
		if c.Prev2 != nil {
			seq = []*Net{c.Prev2, c.Prev}
		}

		first := Build0(seq[0])
		conn := networkconnector.MakeConnector().WithRegistrar(first.Reg).WithDefaultFreq(timing.Freq(c.Net.FreqHz)).WithFlitSize(c.Net.FlitSize)
		first.GenericOn(&conn, "Old0")

		for i, n := range seq[1:] {
			wn := Build0(n)
			wn.Reg, wn.Eng = first.Reg, first.Eng
			wn.GenericOn(&conn, fmt.Sprintf("Old%d", i+1))
		}

		last := Build0(&c.Net)
		last.Reg, last.Eng = first.Reg, first.Eng

		var tables []routing.Table

		func() {
			defer func() {
				if r := recover(); r != nil {
					if _, isHarness := r.(kit.HarnessError); isHarness {
						panic(r)
					}

					out.Violation = kit.Violate("routing", "C30:reused-connector-panics", "building %s with a connector that had built %d network(s) before panics: %v", Describe(&c.Net), len(seq), r)
				}
			}()

			tables = last.GenericOn(&conn, "Net")
		}()

		if out.Violation != nil {
			return out
		}

		v, lines := checkGeneric(last, tables, "Net", "reused connector")
		if v != nil {
			out.Violation = v
			return out
		}

		if a, b := strings.Join(freshLines, " "), strings.Join(lines, " "); a != b {
			out.Violation = kit.Violate("routing", "C30:reused-connector-tables-differ", "the tables of %s built by a reused connector give other routes than those built by a fresh one: fresh %s; reused %s", Describe(&c.Net), clipS(a), clipS(b))
			return out
		}

		reused = len(seq)
	}

	out.Fault("connector-reuse", reused)
	out.NonTrivial = c.Net.Switches >= 2
	out.Shape = fmt.Sprint(Describe(&c.Net), c.Prev != nil, c.Prev2 != nil)
	out.Probe("cyclic-topology", btoi(len(c.Net.Links) >= c.Net.Switches && c.Net.Switches > 2))
	out.Sample = map[string]any{"network": Describe(&c.Net), "reused": reused}

	return out
}

func clipS(s string) string {
	if len(s) > 300 {
		return s[:300] + "…"
	}

	return s
}

func btoi(b bool) int {
	if b {
		return 1
	}

	return 0
}

func init() {
	kit.Register(kit.Spec[R30]{
		ID: "C30", Level: "exploration",
		Rule:        "topologies built by the real generic connector (random trees, rings, cliques, lines, random connected graphs, random device placement) and mesh connector (2D/3D, full and sparse); the routing tables inside the real switches are followed hop by hop from every switch to every device port using the switches' own port complexes: the walk must end at the right endpoint, never loop, take BFS-shortest (generic) or Manhattan (mesh) hop counts; for generic networks the same topology is also built by a connector that built one or two other networks before, and must give the same walks; distinct = topology; non-trivial = >= 2 switches",
		Assumptions: []string{"switch graphs are connected, as the property's quantifier states", "no traffic is run: this check reads the tables that the traffic of C29 uses"},
		Real:        []string{"networkconnector (connector.go, floydwarshall.go)", "mesh (mesh.go, mesh_routing_table.go)", "routing.Table", "switches (port complexes)"},
		Stubs:       []string{"devices (ports only)"},
		FaultKinds:  []string{"connector-reuse"},
		Quick:       kit.Budget{Runs: 3000, WallS: 60},
		Thorough:    kit.Budget{Runs: 600000, WallS: 900},
		Gen:         genR30, Exec: execR30,
		Shrink: func(c R30) []R30 {
			var out []R30

			if c.Prev2 != nil {
				q := c
				q.Prev2 = nil
				out = append(out, q)
			}

			for _, n := range ShrinkNet(c.Net) {
				q := c
				q.Net = n
				out = append(out, q)
			}

			if c.Prev != nil {
				for _, n := range ShrinkNet(*c.Prev) {
					n := n
					q := c
					q.Prev = &n
					out = append(out, q)
				}
			}

			return out
		},
	})
}
