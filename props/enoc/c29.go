package enoc

import (
	"fmt"

	"verif/sim/kit"
)

func execC29(c Net, _ *kit.Env) kit.Outcome {
	var out kit.Outcome

	w := Build(&c)
	w.Run()

	out.Events = w.Events

	if w.V != nil {
		out.Violation = w.V
		return out
	}

	if w.CapHit {
		out.Inconclusive = "event-cap"
		return out
	}

	delivered := w.Delivered()

	if delivered < len(c.Msgs) && c.IsTree() {
		mi := 0

		seen := map[uint64]bool{}
		for _, r := range w.Recvs {
			seen[r.Meta.ID] = true
		}

		for i := range c.Msgs {
			if !seen[w.IDs[i]] {
				mi = i
				break
			}
		}

		m := c.Msgs[mi]
		out.Violation = kit.Violate("delivery", "C29:message-never-delivered["+c.Kind+"]", "the engine ran dry at t=%d with %d of %d messages delivered although every device keeps draining its ports; first missing: #%d dev %d port %d -> dev %d port %d, %d bytes (sent: %v) in %s", w.Eng.CurrentTime(), delivered, len(c.Msgs), mi, m.S[0], m.S[1], m.D[0], m.D[1], m.Bytes, w.SentAt[mi] != 0, Describe(&c))

		return out
	}

	stalls := 0
	for _, d := range c.Devs {
		stalls += len(d.Stalls)
	}

	out.Fault("receiver-stall", stalls)
	out.Probe("undelivered-in-cyclic-topology", len(c.Msgs)-delivered)
	out.Probe("kind:"+c.Kind, 1)
	out.Probe("multi-flit-messages", func() int {
		n := 0
		for _, m := range c.Msgs {
			if m.Bytes > c.FlitSize {
				n++
			}
		}

		return n
	}())
	out.NonTrivial = delivered >= 2
	out.Shape = fmt.Sprint(Describe(&c), c.Link, len(w.Recvs), w.Eng.CurrentTime())
	out.Sample = map[string]any{"network": Describe(&c), "delivered": delivered, "end_time": uint64(w.Eng.CurrentTime())}

	return out
}

func init() {
	kit.Register(kit.Spec[Net]{
		ID: "C29", Level: "exploration",
		Rule: "networks built by the real generic connector (random trees, rings, cliques, lines, random connected graphs), mesh connector (2D/3D, full and sparse), PCIe connector (random switch trees) and NVLink/PCIe hybrid connector around harness devices with 1-2 ports, generated buffer sizes, channel counts, latencies, flit sizes, message sizes 0..4096, traffic classes, RspTo values, send times and finite receiver stalls; " +
			"every delivery is checked when it happens: known message, right device port, once, after it was sent, all six metadata fields equal; in mesh and tree topologies every message must have been delivered when the engine runs dry; distinct = network and outcome shape; non-trivial = >= 2 deliveries",
		Assumptions: []string{"devices keep draining: receiver stalls are finite", "a message's source and destination are different devices", "links are ideal (the only kind the connectors implement)"},
		Real:        []string{"noc/networking/networkconnector, mesh, pcie, nvlink", "switching/endpoint, switching/switches", "noc/directconnection", "routing tables"},
		Stubs:       []string{"devices (senders/receivers)"},
		FaultKinds:  []string{"receiver-stall"},
		Quick:       kit.Budget{Runs: 1500, WallS: 100},
		Thorough:    kit.Budget{Runs: 400000, WallS: 1500},
		Gen:         func(r *kit.Rand, t kit.Tier) Net { return GenNet(r, t) },
		Exec:        execC29, Shrink: ShrinkNet,
	})
}
