package enoc

import (
	"github.com/sarchlab/akita/v5/hooking"
	"github.com/sarchlab/akita/v5/timing"
)

type capHook struct{ w *World }

func (h capHook) Func(ctx hooking.HookCtx) {
	if ctx.Pos != timing.HookPosBeforeEvent {
		return
	}

	h.w.Events++

	if h.w.C.EventCap > 0 && h.w.Events > h.w.C.EventCap {
		h.w.CapHit = true
		panic(capStop{})
	}
}

type cap31 struct{ w *ep31 }

func (h cap31) Func(ctx hooking.HookCtx) {
	if ctx.Pos != timing.HookPosBeforeEvent {
		return
	}

	h.w.events++

	if h.w.events > 300000 {
		panic(capStop{})
	}
}
