package enoc

import (
	"verif/sim/kit"
)

var byteSizes = []int{0, 1, 3, 4, 15, 16, 17, 26, 31, 32, 33, 63, 64, 65, 100, 257, 1000, 4096}

// GenNet draws a network and traffic. kinds restricts the connector kinds ("" = all).
func GenNet(r *kit.Rand, tier kit.Tier, kinds ...string) Net {
	if len(kinds) == 0 {
		kinds = []string{"generic", "generic", "mesh", "mesh", "pcie", "nvlink"}
	}

	c := Net{Kind: kinds[r.Intn(len(kinds))], FreqHz: 1000000000, FlitSize: r.PickInt(4, 8, 16, 32, 64), EventCap: 400000}
	c.Link = LinkCfg{Buf: r.PickInt(1, 1, 2, 4, 16), Chan: r.PickInt(1, 1, 2, 3), Latency: r.PickInt(1, 1, 2, 5)}
	c.SwLat = r.PickInt(1, 1, 2, 4)
	big := tier == kit.Thorough

	ndev := r.Range(2, 5)
	if big {
		ndev = r.Range(2, 8)
	}

	mkDev := func() Dev {
		d := Dev{Ports: r.PickInt(1, 1, 1, 2), Buf: r.PickInt(1, 1, 2, 4)}

		if r.Chance(1, 4) {
			t := uint64(0)
			for i := 0; i < r.Range(1, 2); i++ {
				t += uint64(r.PickInt(0, 1000, 5000, 20000))
				e := t + uint64(r.PickInt(1000, 3000, 20000, 100000))
				d.Stalls = append(d.Stalls, [2]uint64{t, e})
				t = e
			}
		}

		return d
	}

	switch c.Kind {
	case "generic":
		c.Switches = r.Range(1, 5)
		if big {
			c.Switches = r.Range(1, 9)
		}

		n := c.Switches

		switch shape := r.Intn(5); {
		case shape == 0 || n < 3: // random tree
			for s := 1; s < n; s++ {
				c.Links = append(c.Links, [2]int{r.Intn(s), s})
			}
		case shape == 1: // ring
			for s := 0; s < n; s++ {
				c.Links = append(c.Links, [2]int{s, (s + 1) % n})
			}
		case shape == 2: // clique
			for a := 0; a < n; a++ {
				for b := a + 1; b < n; b++ {
					c.Links = append(c.Links, [2]int{a, b})
				}
			}
		case shape == 3: // line
			for s := 1; s < n; s++ {
				c.Links = append(c.Links, [2]int{s - 1, s})
			}
		default: // random connected: spanning tree plus chords
			for s := 1; s < n; s++ {
				c.Links = append(c.Links, [2]int{r.Intn(s), s})
			}

			for k := 0; k < r.Range(1, n); k++ {
				a, b := r.Intn(n), r.Intn(n)
				if a != b {
					c.Links = append(c.Links, [2]int{a, b})
				}
			}
		}

		for i := 0; i < ndev; i++ {
			d := mkDev()
			d.At = r.Intn(n)
			c.Devs = append(c.Devs, d)
		}
	case "mesh":
		dims := [3]int{r.Range(1, 3), r.Range(1, 3), r.PickInt(1, 1, 1, 2)}
		if big {
			dims = [3]int{r.Range(1, 4), r.Range(1, 4), r.PickInt(1, 1, 2, 3)}
		}

		c.MeshBW = []float64{1, 1, 2, 0.5}[r.Intn(4)]

		var tiles [][3]int

		for x := 0; x < dims[0]; x++ {
			for y := 0; y < dims[1]; y++ {
				for z := 0; z < dims[2]; z++ {
					tiles = append(tiles, [3]int{x, y, z})
				}
			}
		}

		sparse := r.Chance(1, 3)

		for i, t := range tiles {
			// a sparse mesh leaves tiles inside the bounding box empty (the far corner
			// stays so that the box is the same)
			if sparse && i != 0 && i != len(tiles)-1 && r.Chance(1, 2) {
				continue
			}

			d := mkDev()
			d.Tile = t
			c.Devs = append(c.Devs, d)
		}

		if len(c.Devs) < 2 {
			d := mkDev()
			d.Tile = [3]int{dims[0], 0, 0}
			c.Devs = append(c.Devs, d)
		}
	case "pcie":
		c.Switches = r.Range(1, 4)
		for s := 1; s < c.Switches; s++ {
			c.Links = append(c.Links, [2]int{r.Intn(s), s})
		}

		for i := 0; i < ndev; i++ {
			d := mkDev()
			d.At = r.Intn(c.Switches)
			c.Devs = append(c.Devs, d)
		}
	case "nvlink":
		c.Switches = r.Range(1, 3)

		if ndev < 3 {
			ndev = 3
		}

		for i := 0; i < ndev; i++ {
			d := mkDev()
			d.At = r.Intn(c.Switches)
			c.Devs = append(c.Devs, d)
		}

		for k := 0; k < r.Range(0, ndev); k++ {
			a, b := r.Range(1, ndev-1), r.Range(1, ndev-1)
			if a != b {
				c.Links = append(c.Links, [2]int{a, b})
				c.NVWidth = append(c.NVWidth, r.PickInt(1, 2))
			}
		}
	}

	nmsg := r.Range(1, 20)
	if big {
		nmsg = r.Range(1, 80)
	}

	// hot spot: a larger full mesh in which every tile streams multi-flit messages
	// to one destination at the same time
	if c.Kind == "mesh" && r.Chance(1, 8) {
		c.Devs = nil
		dims := [][3]int{{5, 4, 1}, {6, 3, 1}, {3, 3, 2}, {6, 6, 1}}[r.Intn(4)]

		for x := 0; x < dims[0]; x++ {
			for y := 0; y < dims[1]; y++ {
				for z := 0; z < dims[2]; z++ {
					c.Devs = append(c.Devs, Dev{Ports: 1, Buf: r.PickInt(1, 2, 4), Tile: [3]int{x, y, z}})
				}
			}
		}

		hot := r.Intn(len(c.Devs))

		for round := 0; round < r.Range(1, 3); round++ {
			for s := range c.Devs {
				if s != hot {
					c.Msgs = append(c.Msgs, TMsg{S: [2]int{s, 0}, D: [2]int{hot, 0}, Bytes: c.FlitSize * r.Range(3, 8)})
				}
			}
		}

		c.EventCap = 3000000

		return c
	}

	classes := []string{"", "req", "memprotocol.ReadReq", "class with space"}
	t := uint64(0)

	for i := 0; i < nmsg; i++ {
		s := r.Intn(len(c.Devs))
		d := r.Intn(len(c.Devs))

		for d == s {
			d = r.Intn(len(c.Devs))
		}

		m := TMsg{S: [2]int{s, r.Intn(c.Devs[s].Ports)}, D: [2]int{d, r.Intn(c.Devs[d].Ports)}, Bytes: byteSizes[r.Intn(len(byteSizes))], Class: classes[r.Intn(len(classes))]}

		if r.Chance(1, 3) {
			m.RspTo = uint64(r.Range(1, 1000))
		}

		if r.Chance(1, 3) {
			t += uint64(r.PickInt(0, 1000, 7000, 40000))
			m.At = t
		}

		c.Msgs = append(c.Msgs, m)
	}

	return c
}

// IsTree reports whether delivery is promised whatever the traffic (mesh and
// tree topologies).
func (c *Net) IsTree() bool {
	switch c.Kind {
	case "mesh", "pcie":
		return true
	case "generic":
		return len(c.Links) == c.Switches-1
	}

	return false
}

// ShrinkNet proposes simpler networks.
func ShrinkNet(c Net) []Net {
	var out []Net

	for _, l := range kit.ListShrinks(c.Msgs) {
		if len(l) == 0 {
			continue
		}

		q := c
		q.Msgs = l
		out = append(out, q)
	}

	for i := range c.Devs {
		if len(c.Devs[i].Stalls) > 0 {
			q := c
			q.Devs = append([]Dev(nil), c.Devs...)
			q.Devs[i].Stalls = nil
			out = append(out, q)
		}
	}

	// drop the last device when no message uses it
	if last := len(c.Devs) - 1; last >= 2 {
		used := false
		for _, m := range c.Msgs {
			if m.S[0] == last || m.D[0] == last {
				used = true
			}
		}

		if !used && (c.Kind == "generic" || c.Kind == "pcie") {
			q := c
			q.Devs = c.Devs[:last]
			out = append(out, q)
		}
	}

	for i, m := range c.Msgs {
		if m.Bytes > 4 {
			q := c
			q.Msgs = append([]TMsg(nil), c.Msgs...)
			q.Msgs[i].Bytes = m.Bytes / 2
			out = append(out, q)
		}
	}

	if c.Kind == "generic" && len(c.Links) > c.Switches-1 {
		for i := range c.Links {
			q := c
			q.Links = append(append([][2]int(nil), c.Links[:i]...), c.Links[i+1:]...)

			if connected(q.Switches, q.Links) {
				out = append(out, q)
			}
		}
	}

	return out
}

func connected(n int, links [][2]int) bool {
	if n == 0 {
		return true
	}

	adj := make([][]int, n)
	for _, l := range links {
		adj[l[0]] = append(adj[l[0]], l[1])
		adj[l[1]] = append(adj[l[1]], l[0])
	}

	seen := make([]bool, n)
	seen[0] = true
	q := []int{0}

	for len(q) > 0 {
		x := q[0]
		q = q[1:]

		for _, y := range adj[x] {
			if !seen[y] {
				seen[y] = true
				q = append(q, y)
			}
		}
	}

	for _, s := range seen {
		if !s {
			return false
		}
	}

	return true
}
