package enoc

import (
	"fmt"
	"math"
	"sort"

	"github.com/sarchlab/akita/v5/messaging"
	"github.com/sarchlab/akita/v5/modeling"
	"github.com/sarchlab/akita/v5/noc/directconnection"
	"github.com/sarchlab/akita/v5/noc/networking/switching/endpoint"
	"github.com/sarchlab/akita/v5/noc/packetization"
	"github.com/sarchlab/akita/v5/timing"
	"github.com/sarchlab/akita/v5/tracing"

	"verif/sim/kit"
)

// OutMsg is a message a device hands to the endpoint.
type OutMsg struct {
	Port  int    `json:"port"`
	Bytes int    `json:"bytes"`
	Class string `json:"class,omitempty"`
	RspTo uint64 `json:"rsp_to,omitempty"`
	At    uint64 `json:"at,omitempty"`
}

// InMsg is a message that arrives from the network as flits.
type InMsg struct {
	Port   int    `json:"port"` // destination device port
	Bytes  int    `json:"bytes"`
	Flits  int    `json:"flits"`
	Class  string `json:"class,omitempty"`
	RspTo  uint64 `json:"rsp_to,omitempty"`
	TaskID uint64 `json:"task_id"`
}

// FlitRef is one flit arrival: message index and sequence number.
type FlitRef struct {
	Msg int    `json:"m"`
	Seq int    `json:"s"`
	At  uint64 `json:"at,omitempty"`
}

type E31 struct {
	FlitSize int         `json:"flit_size"`
	Overhead float64     `json:"overhead"`
	InCh     int         `json:"in_ch"`
	OutCh    int         `json:"out_ch"`
	NetBuf   int         `json:"net_buf"`
	DevPorts int         `json:"dev_ports"`
	DevBuf   int         `json:"dev_buf"`
	Out      []OutMsg    `json:"out,omitempty"`
	In       []InMsg     `json:"in,omitempty"`
	Order    []FlitRef   `json:"order,omitempty"`
	Stalls   [][2]uint64 `json:"stalls,omitempty"`
	Traced   bool        `json:"traced,omitempty"`
}

type ep31 struct {
	c       *E31
	eng     *timing.SerialEngine
	dev     *modeling.TickingComponent
	net     *modeling.TickingComponent
	dports  []messaging.Port
	nport   messaging.Port
	epNet   messaging.Port
	outNext int
	outIDs  []uint64
	inIDs   []uint64
	ordNext int
	sentAt  map[[2]int]uint64 // (msg, seq) -> time the flit was sent towards the endpoint
	flits   []packetization.Flit
	recvs   []Recv
	V       *kit.Violation
	events  uint64
}

func (w *ep31) fail(sig, f string, a ...any) {
	if w.V == nil {
		w.V = kit.Violate("packetization", sig, f, a...)
	}
}

type devSide struct{ w *ep31 }

func (d devSide) Tick() bool {
	w := d.w
	now := uint64(w.eng.CurrentTime())
	progress := false
	stalled := false

	for _, s := range w.c.Stalls {
		if now >= s[0] && now < s[1] {
			stalled = true
			w.eng.Schedule(wake31{t: timing.VTimeInPicoSec(s[1]), tc: w.dev})
		}
	}

	if !stalled {
		for pi, p := range w.dports {
			for {
				m := p.RetrieveIncoming()
				if m == nil {
					break
				}

				progress = true
				w.recvs = append(w.recvs, Recv{Port: pi, Meta: m.Meta(), Time: now, Kind: fmt.Sprintf("%T", m)})
				w.onDeliver(pi, p, m, now)
			}
		}
	}

	for w.outNext < len(w.c.Out) {
		o := w.c.Out[w.outNext]
		if o.At > now {
			w.eng.Schedule(wake31{t: timing.VTimeInPicoSec(o.At), tc: w.dev})
			break
		}

		p := w.dports[o.Port]
		if !p.CanSend() {
			break
		}

		p.Send(tmsg{messaging.MsgMeta{ID: w.outIDs[w.outNext], Src: p.AsRemote(), Dst: "Far.Port", RspTo: o.RspTo, TrafficClass: o.Class, TrafficBytes: o.Bytes}})
		w.outNext++
		progress = true
	}

	return progress
}

type netSide struct{ w *ep31 }

func (n netSide) Tick() bool {
	w := n.w
	now := uint64(w.eng.CurrentTime())
	progress := false

	for {
		m := w.nport.RetrieveIncoming()
		if m == nil {
			break
		}

		progress = true

		f, ok := m.(packetization.Flit)
		if !ok {
			w.fail("C31:endpoint-sends-non-flit", "the endpoint sent %T on its network port", m)
			continue
		}

		w.flits = append(w.flits, f)
	}

	for w.ordNext < len(w.c.Order) {
		o := w.c.Order[w.ordNext]
		if o.At > now {
			w.eng.Schedule(wake31{t: timing.VTimeInPicoSec(o.At), tc: w.net})
			break
		}

		if !w.nport.CanSend() {
			break
		}

		im := w.c.In[o.Msg]
		dst := w.dports[im.Port].AsRemote()
		w.nport.Send(packetization.Flit{
			MsgMeta:      messaging.MsgMeta{ID: timing.GetIDGenerator().Generate(), Src: w.nport.AsRemote(), Dst: w.epNet.AsRemote()},
			SeqID:        o.Seq,
			NumFlitInMsg: im.Flits,
			Msg:          messaging.MsgMeta{ID: w.inIDs[o.Msg], Src: "Far.Port", Dst: dst, RspTo: im.RspTo, TrafficClass: im.Class, TrafficBytes: im.Bytes},
			MsgTaskID:    im.TaskID,
		})
		w.sentAt[[2]int{o.Msg, o.Seq}] = now + 1
		w.ordNext++
		progress = true
	}

	return progress
}

type wake31 struct {
	t  timing.VTimeInPicoSec
	tc *modeling.TickingComponent
}

func (e wake31) Time() timing.VTimeInPicoSec { return e.t }
func (e wake31) HandlerID() string           { return "Wake31" }
func (e wake31) IsSecondary() bool           { return false }

type waker31 struct{}

func (waker31) Handle(e timing.Event) error {
	e.(wake31).tc.TickLater()
	return nil
}

func (w *ep31) onDeliver(pi int, p messaging.Port, m messaging.Msg, now uint64) {
	meta := m.Meta()
	mi := -1

	for i, id := range w.inIDs {
		if id == meta.ID {
			mi = i
		}
	}

	if mi < 0 {
		w.fail("C31:unknown-message-delivered", "device port %d received %T with ID %d, which is none of the incoming messages", pi, m, meta.ID)
		return
	}

	im := w.c.In[mi]

	n := 0
	for _, r := range w.recvs {
		if r.Meta.ID == meta.ID {
			n++
		}
	}

	if n > 1 {
		w.fail("C31:message-delivered-twice", "incoming message #%d (%d flits) was delivered %d times", mi, im.Flits, n)
		return
	}

	arrived := 0
	for s := 0; s < im.Flits; s++ {
		if at, ok := w.sentAt[[2]int{mi, s}]; ok && at <= now {
			arrived++
		}
	}

	if arrived < im.Flits {
		w.fail("C31:delivered-before-all-flits-arrived", "incoming message #%d was delivered at t=%d when %d of its %d flits had been sent to the endpoint (arrival order %v)", mi, now, arrived, im.Flits, clipOrder(w.c.Order))
		return
	}

	want := messaging.MsgMeta{ID: w.inIDs[mi], Src: "Far.Port", Dst: p.AsRemote(), RspTo: im.RspTo, TrafficClass: im.Class, TrafficBytes: im.Bytes}
	if im.Port != pi || meta != want {
		w.fail("C31:reassembled-message-differs", "incoming message #%d for device port %d arrived at port %d as %+v, its flits carried %+v", mi, im.Port, pi, meta, want)
	}
}

func clipOrder(o []FlitRef) []FlitRef {
	if len(o) > 16 {
		return o[:16]
	}

	return o
}

func genE31(r *kit.Rand, tier kit.Tier) E31 {
	c := E31{FlitSize: r.PickInt(1, 4, 8, 16, 32, 64), Overhead: []float64{0, 0, 0.25, 0.5, 0.125, 1, 0.75}[r.Intn(7)], InCh: r.PickInt(1, 1, 2, 3), OutCh: r.PickInt(1, 1, 2, 3), NetBuf: r.PickInt(1, 2, 4, 16), DevPorts: r.PickInt(1, 2, 3), DevBuf: r.PickInt(1, 2, 4), Traced: r.Chance(1, 3)}
	big := tier == kit.Thorough
	classes := []string{"", "req", "rsp"}

	nOut := r.Range(0, 8)
	nIn := r.Range(0, 6)

	if big {
		nOut, nIn = r.Range(0, 30), r.Range(0, 16)
	}

	if nOut+nIn == 0 {
		nIn = 2
	}

	// many messages in reassembly at the same time
	crowd := r.Chance(1, 6)
	if crowd {
		nIn = r.Range(12, 28)
	}

	t := uint64(0)
	for i := 0; i < nOut; i++ {
		o := OutMsg{Port: r.Intn(c.DevPorts), Bytes: byteSizes[r.Intn(len(byteSizes))], Class: classes[r.Intn(3)]}
		if r.Chance(1, 3) {
			o.RspTo = uint64(r.Range(1, 99))
		}

		if r.Chance(1, 3) {
			t += uint64(r.PickInt(0, 1000, 5000))
			o.At = t
		}

		c.Out = append(c.Out, o)
	}

	for i := 0; i < nIn; i++ {
		m := InMsg{Port: r.Intn(c.DevPorts), Bytes: byteSizes[r.Intn(len(byteSizes))], Flits: r.PickInt(1, 1, 2, 2, 3, 5, 9), Class: classes[r.Intn(3)], TaskID: uint64(5000 + i)}
		if r.Chance(1, 3) {
			m.RspTo = uint64(r.Range(1, 99))
		}

		c.In = append(c.In, m)

		for s := 0; s < m.Flits; s++ {
			c.Order = append(c.Order, FlitRef{Msg: i, Seq: s})
		}
	}

	// arrival interleaving: in order, interleaved across messages, or fully shuffled
	mode := r.Intn(3)
	if crowd {
		mode = 1

		for i := range c.In {
			if c.In[i].Flits < 2 {
				c.In[i].Flits = 2
				c.Order = append(c.Order, FlitRef{Msg: i, Seq: 1})
			}
		}
	}

	switch mode {
	case 1:
		sort.SliceStable(c.Order, func(i, j int) bool { return c.Order[i].Seq < c.Order[j].Seq })
	case 2:
		for i := len(c.Order) - 1; i > 0; i-- {
			j := r.Intn(i + 1)
			c.Order[i], c.Order[j] = c.Order[j], c.Order[i]
		}
	}

	t = 0
	for i := range c.Order {
		if r.Chance(1, 4) {
			t += uint64(r.PickInt(1000, 2000, 9000))
		}

		c.Order[i].At = t
	}

	if r.Chance(1, 4) {
		s := uint64(r.PickInt(0, 2000, 6000))
		c.Stalls = append(c.Stalls, [2]uint64{s, s + uint64(r.PickInt(3000, 20000))})
	}

	return c
}

func execE31(c E31, _ *kit.Env) kit.Outcome {
	var out kit.Outcome

	timing.ResetIDGenerator()
	timing.UseSequentialIDGenerator()
	tracing.VerifResetRegistries()

	w := &ep31{c: &c, eng: timing.NewSerialEngine(), sentAt: map[[2]int]uint64{}}
	w.eng.RegisterHandler("Wake31", waker31{})
	reg := &registrar{eng: w.eng}
	freq := 1 * timing.GHz

	w.dev = modeling.NewTickingComponent("Dev", w.eng, freq, devSide{w})
	w.net = modeling.NewTickingComponent("Far", w.eng, freq, netSide{w})

	for p := 0; p < c.DevPorts; p++ {
		w.dports = append(w.dports, messaging.NewPort(w.dev, c.DevBuf, c.DevBuf, fmt.Sprintf("Dev.Port%d", p)))
	}

	w.nport = messaging.NewPort(w.net, 64, 64, "Far.Link")

	spec := endpoint.DefaultSpec()
	spec.Freq, spec.FlitByteSize, spec.EncodingOverhead = freq, c.FlitSize, c.Overhead
	spec.NumInputChannels, spec.NumOutputChannels = c.InCh, c.OutCh
	spec.DefaultSwitchDst = w.nport.AsRemote()
	ep := endpoint.MakeBuilder().WithRegistrar(reg).WithSpec(spec).WithResources(endpoint.Resources{DevicePorts: w.dports}).Build("EP")
	w.epNet = messaging.NewPort(ep, c.NetBuf, c.NetBuf, "EP.NetworkPort")
	ep.SetNetworkPort(w.epNet)
	ep.SetDefaultSwitchDst(w.nport.AsRemote())

	conn := directconnection.MakeBuilder().WithRegistrar(reg).WithSpec(directconnection.Spec{Freq: freq}).Build("Conn")
	conn.PlugIn(w.epNet)
	conn.PlugIn(w.nport)

	rec := NewNetRec()
	if c.Traced {
		tracing.CollectTrace(ep, rec)
	}

	for range c.Out {
		w.outIDs = append(w.outIDs, timing.GetIDGenerator().Generate())
	}

	for range c.In {
		w.inIDs = append(w.inIDs, timing.GetIDGenerator().Generate())
	}

	w.dev.TickLater()
	w.net.TickLater()

	for _, s := range c.Stalls {
		w.eng.Schedule(wake31{t: timing.VTimeInPicoSec(s[1]), tc: w.dev})
	}

	w.eng.AcceptHook(cap31{w})

	capHit := false

	func() {
		defer func() {
			if x := recover(); x != nil {
				if _, ok := x.(capStop); ok {
					capHit = true
					return
				}

				panic(x)
			}
		}()

		_ = w.eng.Run()
	}()

	out.Events = w.events

	if w.V != nil {
		out.Violation = w.V
		return out
	}

	if capHit {
		out.Inconclusive = "event-cap"
		return out
	}

	// outgoing side: the flits the endpoint produced
	byMsg := map[uint64][]packetization.Flit{}
	for _, f := range w.flits {
		byMsg[f.Msg.ID] = append(byMsg[f.Msg.ID], f)
	}

	for i, o := range c.Out {
		fl := byMsg[w.outIDs[i]]
		encoded := float64(o.Bytes) * (1 + c.Overhead)
		want := int(math.Max(1, math.Ceil(encoded/float64(c.FlitSize))))

		if len(fl) != want {
			out.Violation = kit.Violate("packetization", "C31:wrong-number-of-flits", "outgoing message #%d of %d bytes (encoding overhead %v, encoded %v bytes, flit size %d) left the endpoint as %d flits, its encoded size requires %d", i, o.Bytes, c.Overhead, encoded, c.FlitSize, len(fl), want)
			return out
		}

		seen := map[int]bool{}
		src := w.dports[o.Port].AsRemote()
		meta := messaging.MsgMeta{ID: w.outIDs[i], Src: src, Dst: "Far.Port", RspTo: o.RspTo, TrafficClass: o.Class, TrafficBytes: o.Bytes}

		for _, f := range fl {
			if f.NumFlitInMsg != want || f.SeqID < 0 || f.SeqID >= want || seen[f.SeqID] {
				out.Violation = kit.Violate("packetization", "C31:flit-numbering-wrong", "outgoing message #%d: flit with SeqID %d of NumFlitInMsg %d (expected %d flits numbered 0..%d once each)", i, f.SeqID, f.NumFlitInMsg, want, want-1)
				return out
			}

			seen[f.SeqID] = true

			if f.Msg != meta {
				out.Violation = kit.Violate("packetization", "C31:flit-carries-other-metadata", "outgoing message #%d: flit %d carries %+v, the message is %+v", i, f.SeqID, f.Msg, meta)
				return out
			}
		}
	}

	if len(w.flits) != func() int {
		n := 0
		for i := range c.Out {
			n += len(byMsg[w.outIDs[i]])
		}

		return n
	}() {
		out.Violation = kit.Violate("packetization", "C31:flits-of-unknown-message", "the endpoint sent %d flits, some for messages no device sent", len(w.flits))
		return out
	}

	// incoming side: everything delivered exactly once
	got := map[uint64]int{}
	for _, r := range w.recvs {
		got[r.Meta.ID]++
	}

	for i := range c.In {
		if got[w.inIDs[i]] != 1 {
			out.Violation = kit.Violate("packetization", "C31:message-not-delivered", "incoming message #%d (%d flits, all sent to the endpoint) was delivered %d times when the engine ran dry at t=%d (arrival order %v)", i, c.In[i].Flits, got[w.inIDs[i]], w.eng.CurrentTime(), clipOrder(c.Order))
			return out
		}
	}

	if c.Traced && rec.V != nil {
		out.Probe("trace-oddity:"+rec.V.Sig, 1)
	}

	out.Fault("flit-reordering", btoi(len(c.Order) > 1))
	out.Fault("receiver-stall", len(c.Stalls))
	out.Probe("interleaved-messages", btoi(len(c.In) > 1))
	out.NonTrivial = len(w.flits)+len(w.recvs) >= 2
	out.Shape = fmt.Sprint(c.FlitSize, c.Overhead, c.InCh, c.OutCh, len(w.flits), len(w.recvs), w.eng.CurrentTime(), c.Order)
	out.Sample = map[string]any{"flit_size": c.FlitSize, "overhead": c.Overhead, "out_msgs": len(c.Out), "in_msgs": len(c.In), "flits_out": len(w.flits)}

	return out
}

func init() {
	kit.Register(kit.Spec[E31]{
		ID: "C31", Level: "exploration",
		Rule:        "one real endpoint between a harness device (1-3 ports) and a harness network side on a real direct connection: outgoing messages of 0..4096 bytes with encoding overheads 0..1 and flit sizes 1..64 must leave as max(1, ceil(bytes*(1+overhead)/flit)) flits numbered once each and carrying the message's metadata; incoming messages of 1..9 flits are sent to the endpoint in order, interleaved by sequence number or fully shuffled, several per cycle (1-3 input channels), with gaps and receiver stalls: each is delivered exactly once, not before its last flit was sent, at its port, with the metadata its flits carried; distinct = configuration and arrival order; non-trivial = >= 2 flits or deliveries",
		Assumptions: []string{"encoding overheads are exactly representable binary fractions, so that the float formula and the exact one cannot disagree", "the network neither drops nor duplicates flits (C29 covers the switches)"},
		Real:        []string{"switching/endpoint (outgoingmw.go, incomingmw.go)", "noc/directconnection", "messaging ports"},
		Stubs:       []string{"device side", "network side (flit source and sink)"},
		FaultKinds:  []string{"flit-reordering", "receiver-stall"},
		Quick:       kit.Budget{Runs: 4000, WallS: 60},
		Thorough:    kit.Budget{Runs: 1000000, WallS: 900},
		Gen:         genE31, Exec: execE31,
		Shrink: func(c E31) []E31 {
			var out []E31

			for _, l := range kit.ListShrinks(c.Out) {
				q := c
				q.Out = l
				out = append(out, q)
			}

			// drop a whole incoming message
			for i := range c.In {
				q := c
				q.In = append(append([]InMsg(nil), c.In[:i]...), c.In[i+1:]...)
				q.Order = nil

				for _, o := range c.Order {
					switch {
					case o.Msg < i:
						q.Order = append(q.Order, o)
					case o.Msg > i:
						o.Msg--
						q.Order = append(q.Order, o)
					}
				}

				out = append(out, q)
			}

			if len(c.Stalls) > 0 {
				q := c
				q.Stalls = nil
				out = append(out, q)
			}

			return out
		},
	})
}
