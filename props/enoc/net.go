// Package enoc builds switched networks with akita's connectors (generic,
// mesh, PCIe, NVLink/PCIe hybrid) around harness devices and checks delivery,
// routing tables and packetization.
package enoc

import (
	"fmt"
	"sort"
	"strings"

	"github.com/sarchlab/akita/v5/messaging"
	"github.com/sarchlab/akita/v5/modeling"
	"github.com/sarchlab/akita/v5/naming"
	"github.com/sarchlab/akita/v5/noc/networking/mesh"
	"github.com/sarchlab/akita/v5/noc/networking/networkconnector"
	"github.com/sarchlab/akita/v5/noc/networking/nvlink"
	"github.com/sarchlab/akita/v5/noc/networking/pcie"
	"github.com/sarchlab/akita/v5/noc/networking/routing"
	"github.com/sarchlab/akita/v5/noc/networking/switching/endpoint"
	"github.com/sarchlab/akita/v5/noc/networking/switching/switches"
	"github.com/sarchlab/akita/v5/timing"
	"github.com/sarchlab/akita/v5/tracing"

	"verif/sim/kit"
)

// Dev is one harness device.
type Dev struct {
	Ports  int         `json:"ports"`
	At     int         `json:"at"`             // generic/pcie: switch index; nvlink: pcie switch (0 = root complex side list)
	Tile   [3]int      `json:"tile,omitempty"` // mesh
	Stalls [][2]uint64 `json:"stalls,omitempty"`
	Buf    int         `json:"buf"`
}

// TMsg is one scripted message.
type TMsg struct {
	Src, SrcPort int    `json:"-"`
	S            [2]int `json:"s"` // device, port
	D            [2]int `json:"d"`
	Bytes        int    `json:"bytes"`
	Class        string `json:"class,omitempty"`
	RspTo        uint64 `json:"rsp_to,omitempty"`
	At           uint64 `json:"at,omitempty"`
}

// Link parameters of the generic connector.
type LinkCfg struct {
	Buf     int `json:"buf"`
	Chan    int `json:"chan"`
	Latency int `json:"latency"`
}

// Net is one network plus its traffic.
type Net struct {
	Kind     string   `json:"kind"` // generic mesh pcie nvlink
	Switches int      `json:"switches,omitempty"`
	Links    [][2]int `json:"links,omitempty"` // generic: switch graph; pcie: [parent, child] in creation order; nvlink: device-device nvlinks
	NVWidth  []int    `json:"nv_width,omitempty"`
	Devs     []Dev    `json:"devs"`
	Link     LinkCfg  `json:"link"`
	FlitSize int      `json:"flit_size"`
	FreqHz   uint64   `json:"freq_hz"`
	MeshBW   float64  `json:"mesh_bw,omitempty"`
	SwLat    int      `json:"sw_lat,omitempty"`
	Msgs     []TMsg   `json:"msgs"`
	EventCap uint64   `json:"event_cap"`
	Traced   bool     `json:"traced,omitempty"`
}

type tmsg struct{ messaging.MsgMeta }

// Recv is one delivery seen by a device.
type Recv struct {
	Dev, Port int
	Meta      messaging.MsgMeta
	Time      uint64
	Kind      string
}

type device struct {
	w     *World
	idx   int
	cfg   *Dev
	tc    *modeling.TickingComponent
	ports []messaging.Port
	queue []int // indices into Msgs, in order
}

// World is a built network.
type World struct {
	C       *Net
	Eng     *timing.SerialEngine
	Reg     *registrar
	Devs    []*device
	Sent    map[uint64]int // msg ID -> index
	SentAt  []uint64
	IDs     []uint64
	Recvs   []Recv
	V       *kit.Violation
	Events  uint64
	CapHit  bool
	PortDev map[messaging.RemotePort][2]int
	// ExtReg: the foreign registrar of BuildOn
	ExtReg modeling.Registrar
	// Bare: run without the event-cap hook on the engine (C33's unobserved baseline)
	Bare bool
	// table handles for generic networks (one per switch, in index order)
	Tables []routing.Table
}

type registrar struct {
	eng   *timing.SerialEngine
	Comps []naming.Named
	Ports []naming.Named
}

func (r *registrar) GetEngine() timing.Engine          { return r.eng }
func (r *registrar) RegisterComponent(c naming.Named)  { r.Comps = append(r.Comps, c) }
func (r *registrar) RegisterConnection(c naming.Named) { r.Comps = append(r.Comps, c) }
func (r *registrar) RegisterResource(_ naming.Named)   {}
func (r *registrar) RegisterPort(p naming.Named)       { r.Ports = append(r.Ports, p) }

func (w *World) fail(oracle, sig, f string, a ...any) {
	if w.V == nil {
		w.V = kit.Violate(oracle, sig, f, a...)
	}
}

func (d *device) stalled(now uint64) bool {
	for _, s := range d.cfg.Stalls {
		if now >= s[0] && now < s[1] {
			return true
		}
	}

	return false
}

func (d *device) Tick() bool {
	w := d.w
	now := uint64(w.Eng.CurrentTime())
	progress := false

	if !d.stalled(now) {
		for pi, p := range d.ports {
			for {
				m := p.RetrieveIncoming()
				if m == nil {
					break
				}

				progress = true
				w.Recvs = append(w.Recvs, Recv{Dev: d.idx, Port: pi, Meta: m.Meta(), Time: now, Kind: fmt.Sprintf("%T", m)})
				w.onRecv(d.idx, pi, p, m)
			}
		}
	}

	for len(d.queue) > 0 {
		mi := d.queue[0]
		m := &w.C.Msgs[mi]

		if m.At > now {
			break
		}

		p := d.ports[m.S[1]]
		if !p.CanSend() {
			break
		}

		dst := w.Devs[m.D[0]].ports[m.D[1]]
		meta := messaging.MsgMeta{ID: w.IDs[mi], Src: p.AsRemote(), Dst: dst.AsRemote(), RspTo: m.RspTo, TrafficClass: m.Class, TrafficBytes: m.Bytes}
		p.Send(tmsg{meta})
		w.SentAt[mi] = now + 1
		d.queue = d.queue[1:]
		progress = true
	}

	// keep polling while something may still happen for this device
	if !progress {
		if len(d.queue) > 0 && w.C.Msgs[d.queue[0]].At > now {
			d.w.wake(d, w.C.Msgs[d.queue[0]].At)
		}

		for _, s := range d.cfg.Stalls {
			if now >= s[0] && now < s[1] {
				d.w.wake(d, s[1])
			}
		}
	}

	return progress
}

type wakeEvt struct {
	t timing.VTimeInPicoSec
	d *device
}

func (e wakeEvt) Time() timing.VTimeInPicoSec { return e.t }
func (e wakeEvt) HandlerID() string           { return "NetWaker" }
func (e wakeEvt) IsSecondary() bool           { return false }

type waker struct{}

func (waker) Handle(e timing.Event) error {
	e.(wakeEvt).d.tc.TickLater()
	return nil
}

func (w *World) wake(d *device, at uint64) {
	w.Eng.Schedule(wakeEvt{t: timing.VTimeInPicoSec(at), d: d})
}

func (w *World) onRecv(dev, port int, p messaging.Port, m messaging.Msg) {
	meta := m.Meta()

	mi, ok := w.Sent[meta.ID]
	if !ok {
		w.fail("delivery", "C29:unknown-message-delivered", "device %d port %d received %T with ID %d, which no device sent", dev, port, m, meta.ID)
		return
	}

	s := &w.C.Msgs[mi]
	if s.D[0] != dev || s.D[1] != port {
		w.fail("delivery", "C29:delivered-to-wrong-port", "message #%d (dev %d port %d -> dev %d port %d) was delivered to dev %d port %d", mi, s.S[0], s.S[1], s.D[0], s.D[1], dev, port)
		return
	}

	if w.SentAt[mi] == 0 {
		w.fail("delivery", "C29:delivered-before-sent", "message #%d was delivered before it was sent", mi)
		return
	}

	n := 0
	for _, r := range w.Recvs {
		if r.Meta.ID == meta.ID {
			n++
		}
	}

	if n > 1 {
		w.fail("delivery", "C29:delivered-twice", "message #%d (%d bytes, dev %d -> dev %d) was delivered %d times", mi, s.Bytes, s.S[0], s.D[0], n)
		return
	}

	src := w.Devs[s.S[0]].ports[s.S[1]].AsRemote()
	want := messaging.MsgMeta{ID: w.IDs[mi], Src: src, Dst: p.AsRemote(), RspTo: s.RspTo, TrafficClass: s.Class, TrafficBytes: s.Bytes}

	if meta != want {
		w.fail("delivery", "C29:metadata-changed", "message #%d arrived with metadata %+v, it was sent with %+v", mi, meta, want)
	}
}

type capStop struct{}

// Build constructs the network and its devices.
func Build(c *Net) *World {
	w := Build0(c)
	w.build(timing.Freq(c.FreqHz))

	return w
}

func (w *World) reg() modeling.Registrar {
	if w.ExtReg != nil {
		return w.ExtReg
	}

	return w.Reg
}

func (w *World) build(freq timing.Freq) {
	c := w.C

	switch c.Kind {
	case "generic":
		w.buildGeneric(freq)
	case "mesh":
		w.buildMesh(freq)
	case "pcie":
		w.buildPCIe(freq)
	case "nvlink":
		w.buildNVLink(freq)
	default:
		panic(kit.HarnessError("unknown network kind " + c.Kind))
	}
}

// BuildOn builds the network of the configuration on a foreign registrar (a real
// simulation.Simulation); the devices are supplied by the caller, as the ports of
// device i (named "Dev[i].Port<p>").
func BuildOn(reg modeling.Registrar, c *Net, devPorts func(i int) []messaging.Port) *World {
	w := &World{C: c, Eng: reg.GetEngine().(*timing.SerialEngine), Sent: map[uint64]int{}, PortDev: map[messaging.RemotePort][2]int{}}
	w.ExtReg = reg

	for i := range c.Devs {
		d := &device{w: w, idx: i, cfg: &c.Devs[i], ports: devPorts(i)}
		w.Devs = append(w.Devs, d)
	}

	w.build(timing.Freq(c.FreqHz))

	return w
}

// Build0 creates the engine and the devices only.
func Build0(c *Net) *World {
	timing.ResetIDGenerator()
	timing.UseSequentialIDGenerator()
	tracing.VerifResetRegistries()

	w := &World{C: c, Eng: timing.NewSerialEngine(), Sent: map[uint64]int{}, PortDev: map[messaging.RemotePort][2]int{}}
	w.Reg = &registrar{eng: w.Eng}
	w.Eng.RegisterHandler("NetWaker", waker{})

	freq := timing.Freq(c.FreqHz)

	for i := range c.Devs {
		d := &device{w: w, idx: i, cfg: &c.Devs[i]}
		name := fmt.Sprintf("Dev[%d]", i)
		d.tc = modeling.NewTickingComponent(name, w.Eng, freq, d)

		for p := 0; p < c.Devs[i].Ports; p++ {
			port := messaging.NewPort(d.tc, c.Devs[i].Buf, c.Devs[i].Buf, fmt.Sprintf("%s.Port%d", name, p))
			d.ports = append(d.ports, port)
			w.PortDev[port.AsRemote()] = [2]int{i, p}
		}

		w.Devs = append(w.Devs, d)
	}

	for i := range c.Msgs {
		m := &c.Msgs[i]
		id := timing.GetIDGenerator().Generate()
		w.IDs = append(w.IDs, id)
		w.Sent[id] = i
		w.Devs[m.S[0]].queue = append(w.Devs[m.S[0]].queue, i)
	}

	w.SentAt = make([]uint64, len(c.Msgs))

	return w
}

func (w *World) devParam() networkconnector.DeviceToSwitchLinkParameter {
	l := w.C.Link

	return networkconnector.DeviceToSwitchLinkParameter{
		DeviceEndParam: networkconnector.LinkEndDeviceParameter{IncomingBufSize: l.Buf, OutgoingBufSize: l.Buf, NumInputChannel: l.Chan, NumOutputChannel: l.Chan},
		SwitchEndParam: networkconnector.LinkEndSwitchParameter{IncomingBufSize: l.Buf, OutgoingBufSize: l.Buf, Latency: l.Latency, NumInputChannel: l.Chan, NumOutputChannel: l.Chan},
		LinkParam:      networkconnector.LinkParameter{IsIdeal: true, Frequency: timing.Freq(w.C.FreqHz)},
	}
}

func (w *World) swParam() networkconnector.SwitchToSwitchLinkParameter {
	l := w.C.Link
	end := networkconnector.LinkEndSwitchParameter{IncomingBufSize: l.Buf, OutgoingBufSize: l.Buf, Latency: l.Latency, NumInputChannel: l.Chan, NumOutputChannel: l.Chan}

	return networkconnector.SwitchToSwitchLinkParameter{LeftEndParam: end, RightEndParam: end, LinkParam: networkconnector.LinkParameter{IsIdeal: true, Frequency: timing.Freq(w.C.FreqHz)}}
}

// GenericOn builds the generic network of the configuration with the given
// connector (which may have been used before) and returns the per-switch tables.
func (w *World) GenericOn(conn *networkconnector.Connector, name string) []routing.Table {
	c := w.C
	conn.NewNetwork(name)

	var tables []routing.Table

	for s := 0; s < c.Switches; s++ {
		rt := routing.NewTable()
		tables = append(tables, rt)
		conn.AddSwitchWithNameAndRoutingTable(fmt.Sprintf("Switch[%d]", s), rt)
	}

	for _, l := range c.Links {
		conn.ConnectSwitches(l[0], l[1], w.swParam())
	}

	for i, d := range w.Devs {
		conn.ConnectDeviceWithEPName(fmt.Sprintf("EndPoint[%d]", i), c.Devs[i].At, d.ports, w.devParam())
	}

	conn.EstablishRoute()

	return tables
}

func (w *World) buildGeneric(freq timing.Freq) {
	conn := networkconnector.MakeConnector().WithRegistrar(w.reg()).WithDefaultFreq(freq).WithFlitSize(w.C.FlitSize)
	w.Tables = w.GenericOn(&conn, "Net")
}

func (w *World) buildMesh(freq timing.Freq) {
	conn := mesh.NewConnector().WithRegistrar(w.reg()).WithFreq(freq).WithFlitSize(w.C.FlitSize).WithSwitchLatency(w.C.SwLat).WithBandwidth(w.C.MeshBW)
	conn.CreateNetwork("Mesh")

	for i, d := range w.Devs {
		conn.AddTile(w.C.Devs[i].Tile, d.ports)
	}

	conn.EstablishNetwork()
}

func (w *World) buildPCIe(freq timing.Freq) {
	conn := pcie.NewConnector().WithRegistrar(w.reg()).WithFrequency(freq).WithVersion(4, 16).WithSwitchLatency(w.C.SwLat)
	conn.CreateNetwork("PCIe")

	// device 0 is the root-complex device; Links are [parent, child] with child == next switch id
	ids := []int{conn.AddRootComplex(w.Devs[0].ports)}

	for _, l := range w.C.Links {
		ids = append(ids, conn.AddSwitch(ids[l[0]]))
	}

	for i := 1; i < len(w.Devs); i++ {
		conn.PlugInDevice(ids[w.C.Devs[i].At], w.Devs[i].ports)
	}

	conn.EstablishRoute()
}

func (w *World) buildNVLink(freq timing.Freq) {
	conn := nvlink.NewConnector().WithRegistrar(w.reg()).WithFrequency(freq).WithPCIeVersion(3, 16)
	conn.CreateNetwork("Network")

	root := conn.AddRootComplex(w.Devs[0].ports)
	sw := []int{root}

	for s := 1; s < w.C.Switches; s++ {
		id := conn.AddPCIeSwitch()
		conn.ConnectSwitchesWithPCIeLink(root, id)
		sw = append(sw, id)
	}

	devIDs := []int{0}

	for i := 1; i < len(w.Devs); i++ {
		devIDs = append(devIDs, conn.PlugInDevice(sw[w.C.Devs[i].At], w.Devs[i].ports))
	}

	for k, l := range w.C.Links {
		conn.ConnectDevicesWithNVLink(devIDs[l[0]], devIDs[l[1]], w.C.NVWidth[k])
	}

	conn.EstablishRoute()
}

// Run executes the traffic until the engine runs dry (or the event cap).
func (w *World) Run() {
	for _, d := range w.Devs {
		d.tc.TickLater()

		for _, s := range d.cfg.Stalls {
			w.wake(d, s[1])
		}
	}

	if !w.Bare {
		w.Eng.AcceptHook(capHook{w})
	}

	func() {
		defer func() {
			if x := recover(); x != nil {
				if _, ok := x.(capStop); ok {
					return
				}

				panic(x)
			}
		}()

		_ = w.Eng.Run()
	}()
}

// Delivered counts the messages that reached their destination.
func (w *World) Delivered() int {
	seen := map[uint64]bool{}
	for _, r := range w.Recvs {
		seen[r.Meta.ID] = true
	}

	return len(seen)
}

// Switches returns the switch components in registration order.
func (w *World) SwitchComps() []*switches.Comp {
	var out []*switches.Comp

	for _, c := range w.Reg.Comps {
		if s, ok := c.(*switches.Comp); ok {
			out = append(out, s)
		}
	}

	return out
}

// EndPoints returns the endpoint components in registration order.
func (w *World) EndPoints() []*endpoint.Comp {
	var out []*endpoint.Comp

	for _, c := range w.Reg.Comps {
		if e, ok := c.(*endpoint.Comp); ok {
			out = append(out, e)
		}
	}

	return out
}

// Domains returns every traceable network component.
func (w *World) Domains() []tracing.NamedHookable {
	var out []tracing.NamedHookable

	for _, c := range w.Reg.Comps {
		if d, ok := c.(tracing.NamedHookable); ok {
			out = append(out, d)
		}
	}

	return out
}

// Describe renders the network shape.
func Describe(c *Net) string {
	var b strings.Builder

	fmt.Fprintf(&b, "%s devs=%d msgs=%d flit=%d", c.Kind, len(c.Devs), len(c.Msgs), c.FlitSize)

	if c.Kind == "generic" {
		fmt.Fprintf(&b, " switches=%d links=%v", c.Switches, c.Links)
	}

	if c.Kind == "mesh" {
		var tiles []string
		for _, d := range c.Devs {
			tiles = append(tiles, fmt.Sprint(d.Tile))
		}

		sort.Strings(tiles)
		fmt.Fprintf(&b, " tiles=%v", tiles)
	}

	return b.String()
}
