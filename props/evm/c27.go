package evm

import (
	"fmt"
	"sort"

	"github.com/sarchlab/akita/v5/hooking"
	"github.com/sarchlab/akita/v5/mem/memcontrolprotocol"
	"github.com/sarchlab/akita/v5/mem/vm"
	"github.com/sarchlab/akita/v5/messaging"

	"verif/props/tracelog"
	"verif/sim/kit"
)

func genC27(r *kit.Rand, tier kit.Tier) Cfg {
	c := Gen(r, tier, true)
	c.UseAT = false
	c.GMMU = false

	// migrated pages (moved to a frame the allocation cursor still has to pass) and
	// not-valid entries (which keep owning their frame); neither is ever requested
	used := map[uint64]bool{}
	for _, p := range c.Pages {
		used[p.PPage] = true
	}

	requested := map[[2]uint64]bool{}
	for _, q := range c.Reqs {
		for _, op := range q.Ops {
			requested[[2]uint64{uint64(op.PID), op.VPage}] = true
		}
	}

	for i := range c.Pages {
		p := &c.Pages[i]
		if requested[[2]uint64{uint64(p.PID), p.VPage}] {
			continue
		}

		switch r.Intn(4) {
		case 0:
			p.Invalid = true
		case 1:
			to := p.PPage + uint64(r.Range(1, 12))
			if !used[to] {
				used[to] = true
				p.Moved, p.MovedTo = true, to
			}
		}
	}

	if r.Chance(1, 2) {
		// requesters talk to the MMU directly: concurrent walks of one page are
		// not coalesced by a TLB above it
		c.TLBs = nil
		c.MMUCache = false
	}

	if len(c.TLBs) == 0 && !c.MMUCache && r.Chance(1, 2) {
		// reset in the middle of the stream
		t := uint64(0)
		for i := 0; i < r.Range(1, 2); i++ {
			t += uint64(r.PickInt(1000, 4000, 15000, 50000))
			c.Steps = append(c.Steps, Step{Target: "MMU", Cmd: int(memcontrolprotocol.CmdReset), At: t, Wait: r.Bool()})
		}

		c.Steps = append(c.Steps, Step{Target: "MMU", Cmd: int(memcontrolprotocol.CmdEnable), Wait: true})
	}

	return c
}

type resetHook struct {
	w *World
	d *driver
}

func (h resetHook) Func(ctx hooking.HookCtx) {
	if ctx.Pos != messaging.HookPosPortMsgSend {
		return
	}

	rsp, ok := ctx.Item.(memcontrolprotocol.Rsp)
	if !ok || rsp.Command != memcontrolprotocol.CmdReset || !rsp.Success {
		return
	}

	w := h.w
	m := w.mons["MMU"]

	// requests inside the MMU when it was reset are dropped, as documented
	for id := range m.pending {
		m.lost[id] = true
		delete(m.pending, id)

		for _, r := range w.Reqs {
			if _, ok := r.out[id]; ok {
				delete(r.out, id)
				h.d.released[id] = true
				r.tc.TickLater()
			}
		}
	}

	w.Faults["reset-mid-stream"]++
}

func execC27(c Cfg, _ *kit.Env) kit.Outcome {
	var out kit.Outcome

	w := Build(&c)

	if len(c.Steps) > 0 {
		d := w.attachDriver(c.Steps)
		// observe the reset acknowledgment where the MMU sends it (not where the
		// driver receives it): requests delivered before that instant are dropped
		w.Ctrl["MMU"].AcceptHook(resetHook{w, d})
	}

	w.Run()
	finish(&out, &c, w)

	if w.V == nil && !w.CapHit {
		ps := w.pageSize()

		type rng struct {
			key  [2]uint64
			page vm.Page
			auto bool
		}

		var all []rng

		for k, p := range w.table {
			all = append(all, rng{k, p, false})
		}

		for k, p := range w.allocd {
			all = append(all, rng{k, p, true})

			// the page table itself holds exactly that mapping
			got, found := w.PT.Find(vm.PID(k[0]), k[1]*ps)
			if !found || got.PAddr != p.PAddr {
				w.fail("auto-allocation", "C27:table-disagrees-with-response", "(pid %d, vpage %#x) was answered with physical page %#x but the page table holds %+v (found=%v)", k[0], k[1], p.PAddr, got, found)
			}
		}

		sort.Slice(all, func(i, j int) bool {
			if all[i].page.PAddr != all[j].page.PAddr {
				return all[i].page.PAddr < all[j].page.PAddr
			}

			return all[i].key[0]*1e6+all[i].key[1] < all[j].key[0]*1e6+all[j].key[1]
		})

		for i := 0; i+1 < len(all) && w.V == nil; i++ {
			a, b := all[i], all[i+1]
			if !a.auto && !b.auto {
				continue // pre-inserted pages may share physical memory on purpose
			}

			if a.page.PAddr+max(a.page.PageSize, ps) > b.page.PAddr {
				w.fail("auto-allocation", "C27:auto-allocated-page-aliases", "auto-allocated page overlaps another page: (pid %d, vpage %#x) -> [%#x,+%#x) and (pid %d, vpage %#x) -> [%#x,+%#x)",
					a.key[0], a.key[1], a.page.PAddr, a.page.PageSize, b.key[0], b.key[1], b.page.PAddr, b.page.PageSize)
			}
		}

		out.Probe("auto-allocated-pages", len(w.allocd))
	}

	// C27 owns only the allocation oracles; stack-level failures are C25's
	if w.V != nil && len(w.V.Sig) >= 3 && w.V.Sig[:3] != "C27" {
		w.V.Sig = "C27:via-" + w.V.Sig
	}

	out.Violation = w.V
	out.NonTrivial = len(w.allocd) >= 2
	out.Shape = fmt.Sprintf("%s|auto%d", out.Shape, len(w.allocd))

	return out
}

func init() {
	kit.Register(kit.Spec[Cfg]{
		ID: "C27", Level: "exploration",
		Rule: "real MMU with automatic page allocation over a random, partially pre-populated page table (1-3 processes, shared and skipped physical frames, not-valid entries, pages migrated with Update to frames ahead of the allocation cursor), reached directly or through TLB levels / an MMU cache by 1-3 scripted translation requesters (hot pages => concurrent walks of one page, port buffers of 1 => retry path), " +
			"a quarter of the runs reset the MMU in the middle of the stream; oracles: all answers for one (process, virtual page) carry one mapping, the page table holds exactly that mapping afterwards, and the physical range of every auto-allocated page is disjoint from every other page (pre-inserted or auto-allocated); " +
			"distinct = hash of (stack, requests, events, end time, pages allocated); non-trivial = >= 2 pages were auto-allocated",
		Assumptions: []string{"pre-inserted pages are aligned and of the table's page size"},
		Real:        []string{"mem/vm/mmu (auto allocation)", "vm.PageTable", "mem/vm/tlb", "mem/vm/mmuCache", "noc/directconnection"},
		Stubs:       []string{"translation requesters", "control driver"},
		FaultKinds:  []string{"reset-mid-stream", "control-verb", "page-table-of-foreign-type"},
		Quick:       kit.Budget{Runs: 40000, WallS: 100},
		Thorough:    kit.Budget{Runs: 1500000, WallS: 1200},
		Gen:         genC27, Exec: execC27, Shrink: shrinkCfg,
	})
}

// TraceRun executes a stack with a trace log attached to the engine and every port.
func TraceRun(c Cfg) (*tracelog.Log, *World) {
	w := Build(&c)
	l := &tracelog.Log{}

	if len(c.Steps) > 0 {
		w.attachDriver(c.Steps)
	}

	l.Attach(w.Eng, w.Ports)
	w.Run()

	return l, w
}
