package evm

import (
	"bytes"
	"fmt"

	"github.com/sarchlab/akita/v5/hooking"
	"github.com/sarchlab/akita/v5/mem"
	"github.com/sarchlab/akita/v5/mem/memcontrolprotocol"
	"github.com/sarchlab/akita/v5/mem/memprotocol"
	"github.com/sarchlab/akita/v5/mem/vm"
	"github.com/sarchlab/akita/v5/mem/vm/addresstranslator"
	"github.com/sarchlab/akita/v5/mem/vm/gmmu"
	"github.com/sarchlab/akita/v5/mem/vm/mmu"
	"github.com/sarchlab/akita/v5/mem/vm/mmuCache"
	"github.com/sarchlab/akita/v5/mem/vm/tlb"
	"github.com/sarchlab/akita/v5/mem/vm/vmprotocol"
	"github.com/sarchlab/akita/v5/messaging"
	"github.com/sarchlab/akita/v5/modeling"
	"github.com/sarchlab/akita/v5/noc/directconnection"
	"github.com/sarchlab/akita/v5/timing"
)

func memByte(paddr uint64) byte { return byte(1 + (paddr*2654435761>>7)%251) }

// memStub is the recording memory below the address translator: reads return a
// function of the physical address, writes are recorded.
type memStub struct {
	w       *World
	tc      *modeling.TickingComponent
	port    messaging.Port
	pending []stubRsp
	Writes  map[uint64]byte
	period  uint64
}

type stubRsp struct {
	at  uint64
	msg messaging.Msg
}

func (s *memStub) Tick() bool {
	now := uint64(s.w.Eng.CurrentTime())
	progress := false

	for {
		// a slow memory: it takes one request every MemAcceptEvery cycles, so that
		// its port fills up and the unit above meets back-pressure on its way down
		if k := uint64(s.w.C.MemAcceptEvery); k > 1 && (now/s.period)%k != 0 {
			if s.port.PeekIncoming() != nil {
				progress = true // keep ticking until the accepting cycle
			}

			break
		}

		m := s.port.RetrieveIncoming()
		if m == nil {
			break
		}

		progress = true
		meta := messaging.MsgMeta{ID: timing.GetIDGenerator().Generate(), Src: s.port.AsRemote(), Dst: m.Meta().Src, RspTo: m.Meta().ID}
		at := now + uint64(s.w.C.MemDelay)*s.period

		if s.w.C.MemAcceptEvery > 1 {
			s.w.Faults["memory-back-pressure"]++
		}

		switch r := m.(type) {
		case memprotocol.ReadReq:
			d := make([]byte, r.AccessByteSize)
			for i := range d {
				d[i] = memByte(r.Address + uint64(i))
			}

			s.pending = append(s.pending, stubRsp{at, memprotocol.DataReadyRsp{MsgMeta: meta, Data: d}})
		case memprotocol.WriteReq:
			for i, b := range r.Data {
				s.Writes[r.Address+uint64(i)] = b
			}

			s.pending = append(s.pending, stubRsp{at, memprotocol.WriteDoneRsp{MsgMeta: meta}})
		}

		if s.w.C.MemAcceptEvery > 1 {
			break
		}
	}

	for len(s.pending) > 0 && s.pending[0].at <= now && s.port.CanSend() {
		s.port.Send(s.pending[0].msg)
		s.pending = s.pending[1:]
		progress = true
	}

	return progress || len(s.pending) > 0
}

type outReq struct {
	ord int
	op  VOp
}

// requester plays a script of translation requests (translation level) or of
// memory accesses with virtual addresses (through the address translator).
type requester struct {
	idx  int
	w    *World
	cfg  *VReq
	name string
	tc   *modeling.TickingComponent
	port messaging.Port
	dst  messaging.RemotePort
	next int
	out  map[uint64]outReq
	done int
}

func (r *requester) Tick() bool {
	w := r.w
	progress := false

	for {
		m := r.port.RetrieveIncoming()
		if m == nil {
			break
		}

		progress = true

		if w.OnResponse != nil {
			w.OnResponse(m.Meta().RspTo)
		}

		o, ok := r.out[m.Meta().RspTo]

		if !ok {
			if w.drv != nil && w.drv.released[m.Meta().RspTo] {
				continue
			}

			w.fail("requester", "C25:unsolicited-or-duplicate-response", "%s received %T with RspTo=%d matching no outstanding request", r.name, m, m.Meta().RspTo)

			continue
		}

		delete(r.out, m.Meta().RspTo)
		r.done++

		switch rsp := m.(type) {
		case vmprotocol.TranslationRsp:
			w.RespLog = append(w.RespLog, fmt.Sprintf("%d %d %d T %+v", r.idx, o.ord, w.Eng.CurrentTime(), rsp.Page))
		case memprotocol.DataReadyRsp:
			w.RespLog = append(w.RespLog, fmt.Sprintf("%d %d %d D %x", r.idx, o.ord, w.Eng.CurrentTime(), rsp.Data))
		default:
			w.RespLog = append(w.RespLog, fmt.Sprintf("%d %d %d %T", r.idx, o.ord, w.Eng.CurrentTime(), m))
		}
		vaddr := o.op.VPage<<w.C.Log2Page + o.op.Off

		switch rsp := m.(type) {
		case vmprotocol.TranslationRsp:
			w.checkPage(r.name+"<-stack", vm.PID(o.op.PID), vaddr, rsp.Page)
		case memprotocol.DataReadyRsp:
			pg, ok := w.table[[2]uint64{uint64(o.op.PID), o.op.VPage}]
			if !ok {
				break
			}

			want := make([]byte, o.op.Size)
			for i := range want {
				want[i] = memByte(pg.PAddr + o.op.Off + uint64(i))
			}

			if !bytes.Equal(rsp.Data, want) && !w.anyOldMatches(o.op, rsp.Data) {
				w.fail("end-to-end", "C25:access-reached-wrong-physical-address",
					"%s read (pid %d, vaddr %#x): the data is not that of physical address %#x (= mapped page + offset)", r.name, o.op.PID, vaddr, pg.PAddr+o.op.Off)
			}
		case memprotocol.WriteDoneRsp:
		}

		if w.drv != nil {
			w.drv.tc.TickLater()
		}
	}

	for r.next < len(r.cfg.Ops) && len(r.out) < r.cfg.MaxOut && r.port.CanSend() {
		op := r.cfg.Ops[r.next]
		id := timing.GetIDGenerator().Generate()
		meta := messaging.MsgMeta{ID: id, Src: r.port.AsRemote(), Dst: r.dst}
		vaddr := op.VPage<<w.C.Log2Page + op.Off

		switch {
		case !w.C.UseAT:
			meta.TrafficClass = "vmprotocol.TranslationReq"
			// translation requests carry the page-aligned virtual address, as the
			// address translator sends them (the TLB keys its sets and MSHR by it)
			r.port.Send(vmprotocol.TranslationReq{MsgMeta: meta, VAddr: op.VPage << w.C.Log2Page, PID: vm.PID(op.PID), DeviceID: 1})
		case op.Write:
			d := make([]byte, op.Size)
			for i := range d {
				d[i] = byte(1 + (r.idx*131+r.next*17+i*7)%251)
			}

			meta.TrafficClass = "memprotocol.WriteReq"
			r.port.Send(memprotocol.WriteReq{MsgMeta: meta, Address: vaddr, Data: d, PID: vm.PID(op.PID)})
		default:
			meta.TrafficClass = "memprotocol.ReadReq"
			r.port.Send(memprotocol.ReadReq{MsgMeta: meta, Address: vaddr, AccessByteSize: uint64(op.Size), PID: vm.PID(op.PID)})
		}

		r.out[id] = outReq{r.next, op}
		r.next++
		progress = true
	}

	return progress
}

// anyOldMatches: while an update is in progress a read may still be served from
// the previous physical page.
func (w *World) anyOldMatches(op VOp, data []byte) bool {
	if w.drv == nil {
		return false
	}

	for old := range w.drv.inUpdate[[2]uint64{uint64(op.PID), op.VPage}] {
		ok := true

		for i := range data {
			if data[i] != memByte(old+op.Off+uint64(i)) {
				ok = false
				break
			}
		}

		if ok {
			return true
		}
	}

	return false
}

func (r *requester) finished() bool { return r.next == len(r.cfg.Ops) && len(r.out) == 0 }

type capStop struct{}

type engHook struct{ w *World }

func (h engHook) Func(ctx hooking.HookCtx) {
	if ctx.Pos != timing.HookPosBeforeEvent {
		return
	}

	h.w.Events++
	if int(h.w.Events) > h.w.C.EventCap {
		h.w.CapHit = true
		panic(capStop{})
	}
}

// Build assembles the stack on an engine and registrar of its own.
func Build(c *Cfg) *World {
	timing.ResetIDGenerator()
	timing.UseSequentialIDGenerator()

	return BuildOn(nil, c, nil)
}

// ReqMaker builds requester i of a stack on a foreign registrar (a real
// simulation.Simulation): it returns the requester's port, which must be named
// "Req<i>.Out", already created through w.NewPort.
type ReqMaker func(i int, w *World, dst messaging.RemotePort) messaging.Port

// NewPort creates and registers a port of comp.
func (w *World) NewPort(comp messaging.Component, name string, buf int) messaging.Port {
	return w.port(comp, name, buf)
}

// BuildOn assembles the stack on the given registrar (nil: a private engine and
// registrar). With makeReq the requesters are supplied by the caller (checkpointable
// ones); the ID generator is then left to the caller as well.
func BuildOn(reg modeling.Registrar, c *Cfg, makeReq ReqMaker) *World {
	w := &World{
		C: c, Ports: map[string]messaging.Port{}, Ctrl: map[string]messaging.Port{},
		TopOf: map[string]messaging.Port{}, Probes: map[string]int{}, Faults: map[string]int{}, mons: map[string]*topMon{},
		table: map[[2]uint64]vm.Page{}, stale: map[[2]uint64]map[uint64]bool{}, allocd: map[[2]uint64]vm.Page{},
	}

	ptb := vm.MakePageTableBuilder().WithLog2PageSize(c.Log2Page)

	if reg == nil {
		w.Eng = timing.NewSerialEngine()
		w.Reg = &registrar{eng: w.Eng}
	} else {
		w.Eng = reg.GetEngine().(*timing.SerialEngine)
		w.Reg = reg
		ptb = ptb.WithSimulation(reg)
	}

	conn := directconnection.MakeBuilder().WithRegistrar(w.Reg).Build("Conn")
	ps := w.pageSize()

	// With DefaultPT (real simulations only) no page table is injected: the MMU
	// builds its own, which has to be part of the simulation like an injected one.
	ownPT := c.DefaultPT && reg != nil

	insertPages := func() {
		for _, p := range c.Pages {
			pg := vm.Page{PID: vm.PID(p.PID), VAddr: p.VPage * ps, PAddr: p.PPage * ps, PageSize: ps, Valid: !p.Invalid, DeviceID: p.Device, Unified: true}
			w.PT.Insert(pg)

			if p.Moved {
				pg.PAddr = p.MovedTo * ps
				w.PT.Update(pg)
			}

			w.table[[2]uint64{uint64(p.PID), p.VPage}] = pg
		}
	}

	if !ownPT {
		w.PT = ptb.Build("PageTable")
		insertPages()
	}

	monitor := func(name string, top messaging.Port) {
		m := &topMon{w: w, name: name, pending: map[uint64]vmprotocol.TranslationReq{}, done: map[uint64]bool{}, lost: map[uint64]bool{}}
		w.mons[name] = m
		top.AcceptHook(m)
		w.TopOf[name] = top
	}

	// MMU at the bottom
	ms := mmu.DefaultSpec()
	ms.Log2PageSize = c.Log2Page
	ms.Latency = c.MMULatency
	ms.MaxRequestsInFlight = c.MMUInflight
	ms.AutoPageAllocation = c.AutoAlloc
	var mmuPT vm.PageTable = w.PT
	if ownPT {
		mmuPT = nil
	}

	if c.PlainPT && reg == nil {
		mmuPT = plainPT{w.PT}
		w.Faults["page-table-of-foreign-type"]++
	}

	m := mmu.MakeBuilder().WithRegistrar(w.Reg).WithSpec(ms).WithResources(mmu.Resources{PageTable: mmuPT}).Build("MMU")
	if ownPT {
		w.PT = m.Resources().PageTable
		insertPages()
		w.Faults["mmu-builds-its-own-page-table"]++
	}

	below := w.port(m, "Top", c.MMUPortBuf)
	w.Ctrl["MMU"] = w.port(m, "Control", 4)
	conn.PlugIn(below)
	monitor("MMU", below)

	names := []string{"MMU"}

	if c.GMMU {
		gs := gmmu.DefaultSpec()
		gs.Log2PageSize = c.Log2Page
		gs.Latency = c.GMMULatency
		gs.MaxRequestsInFlight = c.MMUInflight
		gs.DeviceID = c.GMMUDevice
		gs.LowModule = below.AsRemote()
		g := gmmu.MakeBuilder().WithRegistrar(w.Reg).WithSpec(gs).WithResources(gmmu.Resources{PageTable: w.PT}).Build("GMMU")
		top := w.port(g, "Top", c.MMUPortBuf)
		conn.PlugIn(top)
		conn.PlugIn(w.port(g, "Bottom", c.MMUPortBuf))
		w.Ctrl["GMMU"] = w.port(g, "Control", 4)
		below = top
		monitor("GMMU", top)
		names = append(names, "GMMU")
	}

	type pendingMC struct {
		comp *mmuCache.Comp
	}

	var mcComp *mmuCache.Comp

	var mcBuild func(up messaging.RemotePort)

	if c.MMUCache {
		low := below.AsRemote()
		// the MMU cache needs the port above it, which is built later
		mcBuild = func(up messaging.RemotePort) {
			s := mmuCache.DefaultSpec()
			s.Log2PageSize = c.Log2Page
			s.PageSize = ps
			s.NumBlocks = c.MCBlocks
			s.NumLevels = c.MCLevels
			s.LatencyPerLevel = c.MCLatency
			mcComp = mmuCache.MakeBuilder().WithRegistrar(w.Reg).WithSpec(s).
				WithResources(mmuCache.Resources{LowModulePort: low, UpModulePort: up}).Build("MMUCache")
		}
	}

	_ = pendingMC{}

	// The chain above the MMU/GMMU, bottom-up: [MMUCache] TLBn .. TLB1 [AT] requesters.
	// Build top-down names first so that the MMU cache can be told who is above it.
	type lvl struct {
		name string
		tlb  *tlb.Comp
	}

	var upName messaging.RemotePort

	// build TLBs bottom-up; each needs the remote port below it
	buildTLB := func(i int, belowPort messaging.RemotePort) *tlb.Comp {
		tc := c.TLBs[i]
		s := tlb.DefaultSpec()
		s.Log2PageSize = c.Log2Page
		s.NumSets, s.NumWays, s.MSHRSize, s.Latency, s.NumReqPerCycle = tc.Sets, tc.Ways, tc.MSHR, tc.Latency, tc.ReqPerCycle

		return tlb.MakeBuilder().WithRegistrar(w.Reg).WithSpec(s).
			WithResources(tlb.Resources{TranslationProviderMapper: &mem.SinglePortMapper{Port: belowPort}}).
			Build(fmt.Sprintf("TLB%d", i+1))
	}

	if c.MMUCache {
		// the port name of whatever sits above the MMU cache is predictable
		switch {
		case len(c.TLBs) > 0:
			upName = messaging.RemotePort(fmt.Sprintf("TLB%d.Bottom", len(c.TLBs)))
		case c.UseAT:
			upName = "AT.Translation"
		default:
			upName = "Req0.Out"
		}

		mcBuild(upName)
		top := w.port(mcComp, "Top", c.MCPortBuf)
		conn.PlugIn(top)
		conn.PlugIn(w.port(mcComp, "Bottom", c.MCPortBuf))
		w.Ctrl["MMUCache"] = w.port(mcComp, "Control", 4)
		below = top
		monitor("MMUCache", top)
		names = append(names, "MMUCache")
	}

	for i := len(c.TLBs) - 1; i >= 0; i-- {
		t := buildTLB(i, below.AsRemote())
		name := fmt.Sprintf("TLB%d", i+1)
		top := w.port(t, "Top", c.TLBs[i].PortBuf)
		conn.PlugIn(top)
		conn.PlugIn(w.port(t, "Bottom", c.TLBs[i].PortBuf))
		w.Ctrl[name] = w.port(t, "Control", 4)
		below = top
		monitor(name, top)
		names = append(names, name)
	}

	reqDst := below.AsRemote()

	if c.UseAT {
		w.Mem = &memStub{w: w, Writes: map[uint64]byte{}, period: 1000}
		w.Mem.tc = modeling.NewTickingComponent("MemStub", w.Eng, 1*timing.GHz, w.Mem)
		w.Mem.tc.DeclarePort("Top", memprotocol.Responder)
		w.Mem.port = w.port(w.Mem.tc, "Top", 4)
		conn.PlugIn(w.Mem.port)

		s := addresstranslator.DefaultSpec()
		s.Log2PageSize = c.Log2Page
		s.NumReqPerCycle = c.ATReqPerCyc
		at := addresstranslator.MakeBuilder().WithRegistrar(w.Reg).WithSpec(s).
			WithResources(addresstranslator.Resources{
				MemProviderMapper:         &mem.SinglePortMapper{Port: w.Mem.port.AsRemote()},
				TranslationProviderMapper: &mem.SinglePortMapper{Port: below.AsRemote()},
			}).Build("AT")
		top := w.port(at, "Top", c.ATPortBuf)
		conn.PlugIn(top)
		conn.PlugIn(w.port(at, "Bottom", c.ATPortBuf))
		conn.PlugIn(w.port(at, "Translation", c.ATPortBuf))
		w.Ctrl["AT"] = w.port(at, "Control", 4)
		w.TopOf["AT"] = top
		reqDst = top.AsRemote()
		names = append(names, "AT")
	}

	// top-down order for scripts
	for i := len(names) - 1; i >= 0; i-- {
		w.Names = append(w.Names, names[i])
	}

	for i := range c.Reqs {
		if makeReq != nil {
			conn.PlugIn(makeReq(i, w, reqDst))
			continue
		}

		r := &requester{idx: i, w: w, cfg: &c.Reqs[i], name: fmt.Sprintf("Req%d", i), dst: reqDst, out: map[uint64]outReq{}}
		r.tc = modeling.NewTickingComponent(r.name, w.Eng, 1*timing.GHz, r)
		r.tc.DeclarePort("Out")
		r.port = w.port(r.tc, "Out", c.Reqs[i].PortBuf)
		conn.PlugIn(r.port)
		w.Reqs = append(w.Reqs, r)
	}

	if !NoEngineHook {
		w.Eng.AcceptHook(engHook{w})
	}

	if ExtraAttach != nil {
		ExtraAttach(w)
	}

	return w
}

// Run executes the stack to quiescence and applies the completion oracle.
func (w *World) Run() {
	for _, r := range w.Reqs {
		r.tc.TickLater()
	}

	func() {
		defer func() {
			if x := recover(); x != nil {
				if _, ok := x.(capStop); ok {
					return
				}

				panic(x)
			}
		}()

		_ = w.Eng.Run()
	}()

	if w.CapHit || w.V != nil {
		return
	}

	for _, r := range w.Reqs {
		if !r.finished() {
			w.fail("completion", "C25:request-unanswered", "run ended at t=%d with %s having issued %d of %d requests and %d unanswered",
				w.Eng.CurrentTime(), r.name, r.next, len(r.cfg.Ops), len(r.out))

			return
		}
	}

	for name, m := range w.mons {
		if len(m.pending) > 0 {
			w.fail("translation-monitor", "C25:translator-request-unanswered["+kindOfName(name)+"]", "run ended with %d translation request(s) delivered to %s never answered", len(m.pending), name)
			return
		}
	}

	// every acknowledged write landed at the mapped physical address
	if w.Mem != nil {
		for ri, r := range w.Reqs {
			for k, op := range r.cfg.Ops {
				if !op.Write {
					continue
				}

				pg, ok := w.table[[2]uint64{uint64(op.PID), op.VPage}]
				if !ok || w.drv != nil {
					continue // with updates the final owner of a physical byte is history dependent
				}

				for i := 0; i < op.Size; i++ {
					want := byte(1 + (ri*131+k*17+i*7)%251)
					if got, ok := w.Mem.Writes[pg.PAddr+op.Off+uint64(i)]; ok && got == want {
						continue
					}

					if w.laterWriter(ri, k, op, i) {
						continue
					}

					w.fail("end-to-end", "C25:write-reached-wrong-physical-address", "%s write #%d (pid %d, vpage %#x, off %d) is not at physical address %#x", r.name, k, op.PID, op.VPage, op.Off, pg.PAddr+op.Off+uint64(i))

					return
				}
			}
		}
	}
}

// laterWriter: another write may own the byte (same physical byte written again).
func (w *World) laterWriter(ri, k int, op VOp, i int) bool {
	pg := w.table[[2]uint64{uint64(op.PID), op.VPage}]
	target := pg.PAddr + op.Off + uint64(i)

	for rj, r := range w.Reqs {
		for kk, o := range r.cfg.Ops {
			if !o.Write || (rj == ri && kk == k) {
				continue
			}

			p2, ok := w.table[[2]uint64{uint64(o.PID), o.VPage}]
			if !ok {
				continue
			}

			if target >= p2.PAddr+o.Off && target < p2.PAddr+o.Off+uint64(o.Size) {
				return true
			}
		}
	}

	return false
}

var _ = memcontrolprotocol.CmdPause

// plainPT is a page table of a type of the user's own: it implements vm.PageTable
// (by forwarding to the stock table) and nothing beyond it.
type plainPT struct{ in vm.PageTable }

func (p plainPT) Insert(page vm.Page)                        { p.in.Insert(page) }
func (p plainPT) Remove(pid vm.PID, vAddr uint64)            { p.in.Remove(pid, vAddr) }
func (p plainPT) Find(pid vm.PID, a uint64) (vm.Page, bool)  { return p.in.Find(pid, a) }
func (p plainPT) Update(page vm.Page)                        { p.in.Update(page) }
func (p plainPT) ReverseLookup(pAddr uint64) (vm.Page, bool) { return p.in.ReverseLookup(pAddr) }
