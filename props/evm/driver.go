package evm

import (
	"fmt"
	"strconv"
	"strings"

	"github.com/sarchlab/akita/v5/mem/memcontrolprotocol"
	"github.com/sarchlab/akita/v5/mem/vm"
	"github.com/sarchlab/akita/v5/messaging"
	"github.com/sarchlab/akita/v5/modeling"
	"github.com/sarchlab/akita/v5/noc/directconnection"
	"github.com/sarchlab/akita/v5/timing"
)

type ack struct {
	step int
	rsp  memcontrolprotocol.Rsp
}

// driver plays the control script; marks on steps trigger page-table updates.
type driver struct {
	w        *World
	tc       *modeling.TickingComponent
	port     messaging.Port
	steps    []Step
	next     int
	waiting  map[uint64]int
	blockOn  int
	acks     []ack
	inUpdate map[[2]uint64]map[uint64]bool
	released map[uint64]bool
	onAck    func(step Step, rsp memcontrolprotocol.Rsp)
}

type drvPoke struct{ t timing.VTimeInPicoSec }

func (e drvPoke) Time() timing.VTimeInPicoSec { return e.t }
func (e drvPoke) HandlerID() string           { return "DrvPoker" }
func (e drvPoke) IsSecondary() bool           { return false }

type drvPoker struct{ d *driver }

func (p drvPoker) Handle(_ timing.Event) error {
	p.d.tc.TickLater()
	return nil
}

func (w *World) attachDriver(steps []Step) *driver {
	d := &driver{w: w, steps: steps, waiting: map[uint64]int{}, blockOn: -1, inUpdate: map[[2]uint64]map[uint64]bool{}, released: map[uint64]bool{}}
	d.tc = modeling.NewTickingComponent("Driver", w.Eng, 1*timing.GHz, d)
	d.tc.DeclarePort("Ctrl", memcontrolprotocol.Requester)
	d.port = w.port(d.tc, "Ctrl", 16)
	conn := directconnection.MakeBuilder().WithRegistrar(w.Reg).Build("CtrlConn")
	conn.PlugIn(d.port)

	for _, p := range w.Ctrl {
		conn.PlugIn(p)
	}

	w.Eng.RegisterHandler("DrvPoker", drvPoker{d})

	for _, s := range steps {
		if s.At > 0 {
			w.Eng.Schedule(drvPoke{timing.VTimeInPicoSec(s.At)})
		}
	}

	d.tc.TickLater()
	w.drv = d

	return d
}

func (d *driver) done() bool { return d.next == len(d.steps) && len(d.waiting) == 0 }

// Tick implements modeling.Ticker.
func (d *driver) Tick() bool {
	w := d.w
	progress := false
	now := uint64(w.Eng.CurrentTime())

	for {
		m := d.port.RetrieveIncoming()
		if m == nil {
			break
		}

		progress = true

		rsp, ok := m.(memcontrolprotocol.Rsp)
		if !ok {
			continue
		}

		step, known := d.waiting[rsp.RspTo]
		if !known {
			w.fail("control-monitor", "C18:unsolicited-control-response", "driver received a control response matching no request (cmd %d)", rsp.Command)
			continue
		}

		delete(d.waiting, rsp.RspTo)
		d.acks = append(d.acks, ack{step, rsp})

		if d.blockOn == step {
			d.blockOn = -1
		}

		d.handleMark(d.steps[step], rsp)

		if d.onAck != nil {
			d.onAck(d.steps[step], rsp)
		}
	}

	for d.next < len(d.steps) && d.blockOn < 0 {
		s := d.steps[d.next]
		if s.At > now || !d.port.CanSend() {
			break
		}

		target, ok := w.Ctrl[s.Target]
		if !ok {
			panic(fmt.Sprintf("harness: control target %q does not exist", s.Target))
		}

		id := timing.GetIDGenerator().Generate()
		d.port.Send(memcontrolprotocol.Req{
			MsgMeta: messaging.MsgMeta{ID: id, Src: d.port.AsRemote(), Dst: target.AsRemote(), TrafficClass: "memcontrolprotocol.Req"},
			Command: memcontrolprotocol.Command(s.Cmd), Addresses: s.Addresses, PID: vm.PID(s.PID),
		})
		d.waiting[id] = d.next

		if s.Wait {
			d.blockOn = d.next
		}

		d.next++
		progress = true
	}

	return progress
}

// handleMark applies "apply-update:<k>" (change the page table once everything is
// drained) and "update-done:<k>" (the last invalidation is acknowledged: from now
// on the replaced mapping must never be returned).
func (d *driver) handleMark(s Step, rsp memcontrolprotocol.Rsp) {
	w := d.w

	if s.Mark == "" {
		return
	}

	if !rsp.Success {
		w.fail("control-monitor", "C25:update-step-refused", "%s refused command %d during a page-table update: %q", s.Target, s.Cmd, rsp.Error)
		return
	}

	kind, idx, _ := strings.Cut(s.Mark, ":")
	k, _ := strconv.Atoi(idx)

	if k >= len(w.C.Updates) {
		return
	}

	u := w.C.Updates[k]
	ps := w.pageSize()

	switch kind {
	case "apply-update":
		for _, r := range u.Remaps {
			key := [2]uint64{uint64(r.PID), r.VPage}

			old, ok := w.table[key]
			if !ok {
				continue
			}

			if d.inUpdate[key] == nil {
				d.inUpdate[key] = map[uint64]bool{}
			}

			d.inUpdate[key][old.PAddr] = true
			np := old
			np.PAddr = r.PPage * ps
			w.PT.Update(np)
			w.table[key] = np
			delete(w.stale[key], np.PAddr)
		}

		w.Faults["page-table-update"]++
	case "update-done":
		for _, r := range u.Remaps {
			key := [2]uint64{uint64(r.PID), r.VPage}

			for old := range d.inUpdate[key] {
				if w.stale[key] == nil {
					w.stale[key] = map[uint64]bool{}
				}

				if old != w.table[key].PAddr {
					w.stale[key][old] = true
				}
			}

			delete(d.inUpdate, key)
		}
	}
}
