package evm

import (
	"fmt"
	"sort"
	"strings"

	"github.com/sarchlab/akita/v5/mem/memcontrolprotocol"

	"verif/sim/kit"
)

// Gen draws a translation stack and its scripts.
func Gen(r *kit.Rand, tier kit.Tier, auto bool) Cfg {
	c := Cfg{Log2Page: uint64(r.PickInt(12, 12, 12, 16, 21, 6))}
	small := r.Chance(2, 3)
	buf := func() int {
		if small {
			return r.PickInt(1, 1, 2, 4)
		}

		return r.PickInt(4, 8, 16)
	}

	c.UseAT = !auto && r.Chance(1, 2)
	c.ATReqPerCyc, c.ATPortBuf = r.PickInt(1, 2, 4), buf()

	ntlb := r.Weighted(2, 4, 3)
	for i := 0; i < ntlb; i++ {
		t := TLBCfg{ReqPerCycle: r.PickInt(1, 2, 4), PortBuf: buf(), Latency: r.PickInt(1, 1, 2, 4)}
		if small {
			t.Sets, t.Ways, t.MSHR = r.PickInt(1, 2), r.PickInt(1, 2, 4), r.PickInt(1, 2, 4)
		} else {
			t.Sets, t.Ways, t.MSHR = r.PickInt(1, 4, 8), r.PickInt(4, 8, 32), r.PickInt(4, 8)
		}

		c.TLBs = append(c.TLBs, t)
	}

	c.MMUCache = r.Chance(1, 3)
	c.MCBlocks, c.MCLevels, c.MCLatency, c.MCPortBuf = r.PickInt(1, 2, 4), r.PickInt(1, 2, 5), uint64(r.PickInt(1, 10, 100)), buf()
	c.GMMU = !auto && r.Chance(1, 4) // the GMMU does not allocate pages
	c.GMMULatency, c.GMMUDevice = r.PickInt(0, 1, 5), uint64(r.PickInt(1, 2))
	c.MMULatency, c.MMUInflight, c.MMUPortBuf = r.PickInt(0, 1, 5, 10), r.PickInt(1, 2, 4, 16), buf()
	c.AutoAlloc = auto
	c.MemDelay = r.PickInt(0, 1, 5, 20)

	// page table
	npid := r.Range(1, 3)
	nv := r.PickInt(2, 4, 8, 16)
	shared := r.Chance(1, 3)
	usedP := map[uint64]bool{}
	nextP := uint64(r.Intn(4))

	for pid := 1; pid <= npid; pid++ {
		for v := 0; v < nv; v++ {
			if auto && r.Chance(1, 2) {
				continue // left for auto allocation
			}

			pp := nextP
			nextP += uint64(r.PickInt(1, 1, 2))

			if shared && len(usedP) > 0 && r.Chance(1, 4) {
				// pick among the used pages in sorted order: ranging over the map
				// would make the generated case depend on the process
				keys := make([]uint64, 0, len(usedP))
				for q := range usedP {
					keys = append(keys, q)
				}

				sort.Slice(keys, func(i, j int) bool { return keys[i] < keys[j] })
				pp = keys[r.Intn(len(keys))]
			}

			usedP[pp] = true
			c.Pages = append(c.Pages, PageCfg{PID: uint32(pid), VPage: uint64(v), PPage: pp, Device: uint64(r.PickInt(1, 1, 2))})
		}
	}

	// requests
	nreq := r.Range(1, 3)
	if c.MMUCache && len(c.TLBs) == 0 && !c.UseAT {
		nreq = 1 // the MMU cache answers to its one configured upper module
	}

	maxOps := 40

	if tier == kit.Thorough {
		maxOps = r.PickInt(40, 200, 1000)
	}

	hot := r.Chance(1, 2)

	for i := 0; i < nreq; i++ {
		q := VReq{MaxOut: r.PickInt(1, 2, 4, 16), PortBuf: buf()}

		for k := 0; k < r.Range(1, maxOps); k++ {
			var pid uint32

			var vp uint64

			if auto {
				pid, vp = uint32(1+r.Intn(npid)), uint64(r.Intn(nv))
				if hot {
					vp = uint64(r.Intn(2))
				}
			} else {
				if len(c.Pages) == 0 {
					break
				}

				pg := c.Pages[r.Intn(len(c.Pages))]
				if hot {
					pg = c.Pages[r.Intn(min(3, len(c.Pages)))]
				}

				pid, vp = pg.PID, pg.VPage
			}

			size := r.PickInt(4, 8, 64)
			off := uint64(r.Intn(int((uint64(1)<<c.Log2Page)/uint64(size)))) * uint64(size)
			q.Ops = append(q.Ops, VOp{PID: pid, VPage: vp, Off: off, Size: size, Write: r.Chance(1, 3)})
		}

		if len(q.Ops) > 0 {
			c.Reqs = append(c.Reqs, q)
		}
	}

	total := 0
	for _, q := range c.Reqs {
		total += len(q.Ops)
	}

	c.EventCap = 300000 + total*30000

	// one run in five: process IDs and page numbers whose decimal / hexadecimal
	// digits line up (pid 1 page 0x23 next to pid 12 page 0x3, ...), the way keys
	// built by concatenating the two would collide
	if r.Chance(1, 5) {
		pidMap := map[uint32]uint32{1: 1, 2: 12, 3: 123}
		pageMap := []uint64{0x23, 0x3, 0x123, 0x13, 0x2, 0x22, 0x1, 0x11}
		vp := func(v uint64) uint64 {
			if int(v) < len(pageMap) {
				return pageMap[v]
			}

			return 0x1000 + v
		}

		for i := range c.Pages {
			c.Pages[i].PID, c.Pages[i].VPage = pidMap[c.Pages[i].PID], vp(c.Pages[i].VPage)
		}

		for i := range c.Reqs {
			for k := range c.Reqs[i].Ops {
				op := &c.Reqs[i].Ops[k]
				op.PID, op.VPage = pidMap[op.PID], vp(op.VPage)
			}
		}
	}

	// the MMU is handed a page table of a foreign type now and then: one that has
	// the five vm.PageTable methods and nothing else
	c.PlainPT = r.Chance(1, 6)
	c.MemAcceptEvery = r.PickInt(0, 0, 0, 3, 10, 40)

	return c
}

// names returns the translator names of the stack top-down.
func (c *Cfg) names() []string {
	var n []string

	if c.UseAT {
		n = append(n, "AT")
	}

	for i := range c.TLBs {
		n = append(n, fmt.Sprintf("TLB%d", i+1))
	}

	if c.MMUCache {
		n = append(n, "MMUCache")
	}

	if c.GMMU {
		n = append(n, "GMMU")
	}

	return append(n, "MMU")
}

// AddUpdates appends page-table update histories and expands them into steps.
func AddUpdates(r *kit.Rand, c *Cfg) {
	if len(c.Pages) == 0 {
		return
	}

	names := c.names()
	ps := uint64(1) << c.Log2Page
	t := uint64(0)
	freeP := uint64(1000)

	for k := 0; k < r.Range(1, 3); k++ {
		t += uint64(r.PickInt(2000, 10000, 40000, 120000))
		u := UpdateCfg{At: t, FilterAddr: r.Bool(), FilterPID: r.Chance(1, 3)}
		pid := c.Pages[r.Intn(len(c.Pages))].PID

		for n := 0; n < r.Range(1, 3); n++ {
			pg := c.Pages[r.Intn(len(c.Pages))]
			if u.FilterPID && pg.PID != pid {
				continue
			}

			freeP++
			u.Remaps = append(u.Remaps, Remap{PID: pg.PID, VPage: pg.VPage, PPage: freeP})
		}

		if len(u.Remaps) == 0 {
			continue
		}

		c.Updates = append(c.Updates, u)
		ui := len(c.Updates) - 1

		for i, n := range names {
			s := Step{Target: n, Cmd: int(memcontrolprotocol.CmdDrain), Wait: true}
			if i == 0 {
				s.At = t
			}

			if i == len(names)-1 {
				s.Mark = fmt.Sprintf("apply-update:%d", ui)
			}

			c.Steps = append(c.Steps, s)
		}

		var caching []string
		for _, n := range names {
			if n != "AT" && n != "GMMU" && n != "MMU" {
				caching = append(caching, n)
			}
		}

		if len(caching) == 0 {
			// nothing caches translations: the update is complete once applied
			c.Steps[len(c.Steps)-1].Mark = ""
			c.Steps = append(c.Steps, Step{Target: "MMU", Cmd: int(memcontrolprotocol.CmdDrain), Wait: true, Mark: fmt.Sprintf("apply-update:%d", ui)})
			c.Steps = append(c.Steps, Step{Target: "MMU", Cmd: int(memcontrolprotocol.CmdPause), Wait: true, Mark: fmt.Sprintf("update-done:%d", ui)})
		}

		for i, n := range caching {
			s := Step{Target: n, Cmd: int(memcontrolprotocol.CmdInvalidate), Wait: true}

			if u.FilterAddr {
				for _, rm := range u.Remaps {
					s.Addresses = append(s.Addresses, rm.VPage*ps)
				}
			}

			if u.FilterPID {
				s.PID = pid
			}

			if i == len(caching)-1 {
				s.Mark = fmt.Sprintf("update-done:%d", ui)
			}

			c.Steps = append(c.Steps, s)
		}

		for i := len(names) - 1; i >= 0; i-- {
			c.Steps = append(c.Steps, Step{Target: names[i], Cmd: int(memcontrolprotocol.CmdEnable), Wait: true})
		}
	}
}

func describe(c *Cfg) string {
	s := fmt.Sprintf("%dreq", len(c.Reqs))
	for _, n := range c.names() {
		s += ">" + n
	}

	return fmt.Sprintf("%s|page2^%d|%dpages", s, c.Log2Page, len(c.Pages))
}

func finish(out *kit.Outcome, c *Cfg, w *World) {
	out.Events = w.Events
	out.SimTimePs = uint64(w.Eng.CurrentTime())
	total := 0

	for _, q := range c.Reqs {
		total += len(q.Ops)
	}

	for k, v := range w.Faults {
		out.Fault(k, v)
	}

	if w.drv != nil {
		out.Fault("control-verb", len(w.drv.acks))
	}

	for k, v := range w.Probes {
		out.Probe(k, v)
	}

	for _, n := range c.names() {
		out.Probe("stack:"+kindOfName(n), 1)
	}

	for _, t := range c.TLBs {
		if t.Latency == 1 {
			out.Probe("tlb-latency-1(one-stage-pipeline)", 1)
		}
	}

	out.Shape = fmt.Sprintf("%s|%d|%d|%d", describe(c), total, w.Events, out.SimTimePs)
	out.NonTrivial = total >= 3
	out.Sample = map[string]any{"stack": describe(c), "requests": total, "events": w.Events, "updates": len(c.Updates)}

	if w.CapHit {
		out.Inconclusive = "event-cap"
	}
}

func execC25(c Cfg, _ *kit.Env) kit.Outcome {
	var out kit.Outcome

	w := Build(&c)
	w.Strict = true

	if len(c.Steps) > 0 {
		w.attachDriver(c.Steps)
	}

	w.Run()

	if w.V == nil && !w.CapHit && w.drv != nil && !w.drv.done() {
		w.fail("control-monitor", "C25:update-script-stuck", "run ended at t=%d with the update script at step %d of %d", w.Eng.CurrentTime(), w.drv.next, len(c.Steps))
	}

	finish(&out, &c, w)
	out.Violation = w.V

	return out
}

func shrinkCfg(c Cfg) []Cfg {
	var out []Cfg

	for i := range c.Reqs {
		for _, l := range kit.ListShrinks(c.Reqs[i].Ops) {
			if len(l) == 0 {
				continue
			}

			q := c
			q.Reqs = append([]VReq(nil), c.Reqs...)
			q.Reqs[i].Ops = l
			out = append(out, q)
		}
	}

	if len(c.Reqs) > 1 {
		for i := range c.Reqs {
			q := c
			q.Reqs = kit.DropAt(c.Reqs, i)
			out = append(out, q)
		}
	}

	if len(c.Steps) == 0 {
		if len(c.TLBs) > 0 {
			q := c
			q.TLBs = c.TLBs[:len(c.TLBs)-1]
			out = append(out, q)
		}

		if c.MMUCache {
			q := c
			q.MMUCache = false
			out = append(out, q)
		}

		if c.GMMU {
			q := c
			q.GMMU = false
			out = append(out, q)
		}
	}

	return out
}

func init() {
	real := []string{"mem/vm/addresstranslator", "mem/vm/tlb", "mem/vm/mmuCache", "mem/vm/gmmu", "mem/vm/mmu", "vm.PageTable", "noc/directconnection"}
	kit.Register(kit.Spec[Cfg]{
		ID: "C25", Level: "exploration",
		Rule: "random translation stacks: [address translator] -> 0-2 TLB levels (1-8 sets x 1-32 ways, MSHR 1-8, latency 1-4 incl. the one-stage pipeline) -> [MMU cache] -> [GMMU] -> MMU over a shared page table (1-3 processes, 2-16 virtual pages each, optionally shared physical pages, page sizes 2^6..2^21), small port buffers favoured; " +
			"1-3 scripted requesters issue translation requests (or, through the address translator, reads and writes against a recording memory stub whose data is a function of the physical address); 1 run in 3 adds 1-3 page-table update histories (drain everything top-down, change mappings, invalidate every caching level with address / process filters or completely, enable bottom-up); " +
			"oracles: at every translator's Top port each request is answered exactly once, to its requester, with the page the table holds; end to end every access reaches mapped physical page + offset; after an acknowledged invalidation no translation returns the replaced physical page; everything completes; distinct = hash of (stack, requests, events, end time); non-trivial = >= 3 requests",
		Assumptions: []string{"pages are aligned and of the table's page size", "during an update (between the table change and the last invalidation acknowledgment) the previous mapping may still be returned"},
		Real:        real,
		Stubs:       []string{"requesters", "recording memory stub", "control / update driver"},
		FaultKinds:  []string{"page-table-update", "control-verb", "page-table-of-foreign-type", "memory-back-pressure"},
		Quick:       kit.Budget{Runs: 60000, WallS: 100},
		Thorough:    kit.Budget{Runs: 800000, WallS: 1500, CaseS: 300},
		Gen: func(r *kit.Rand, t kit.Tier) Cfg {
			c := Gen(r, t, false)
			if r.Chance(1, 3) {
				AddUpdates(r, &c)
			}

			return c
		},
		Exec: execC25, Shrink: shrinkCfg,
	})
}

// ShrinkCfg exposes the stack shrinker to other checks.
func ShrinkCfg(c Cfg) []Cfg { return shrinkCfg(c) }

// AttachSteps attaches the control/update driver when the configuration has a script.
func (w *World) AttachSteps() {
	if len(w.C.Steps) > 0 {
		w.attachDriver(w.C.Steps)
	}
}

// MemFingerprint renders what the memory stub below an address translator holds.
func (w *World) MemFingerprint() string {
	if w.Mem == nil {
		return ""
	}

	addrs := make([]uint64, 0, len(w.Mem.Writes))
	for a := range w.Mem.Writes {
		addrs = append(addrs, a)
	}

	sort.Slice(addrs, func(i, j int) bool { return addrs[i] < addrs[j] })

	var b strings.Builder
	for _, a := range addrs {
		fmt.Fprintf(&b, "%x:%02x ", a, w.Mem.Writes[a])
	}

	return b.String()
}
