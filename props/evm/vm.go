// Package evm simulates random address-translation stacks built from the real
// library components (address translator, TLB levels, MMU cache, GMMU, MMU,
// shared page table) between scripted requesters and a recording memory stub,
// with seeded geometries, back-pressure, control verbs and page-table updates
// (properties C25 and C27; the VM agents of C18).
package evm

import (
	"github.com/sarchlab/akita/v5/tracing"

	"strings"

	"github.com/sarchlab/akita/v5/hooking"
	"github.com/sarchlab/akita/v5/mem/vm"
	"github.com/sarchlab/akita/v5/mem/vm/vmprotocol"
	"github.com/sarchlab/akita/v5/messaging"
	"github.com/sarchlab/akita/v5/modeling"
	"github.com/sarchlab/akita/v5/naming"
	"github.com/sarchlab/akita/v5/timing"

	"verif/sim/kit"
)

// TLBCfg configures one TLB level.
type TLBCfg struct {
	Sets        int `json:"sets"`
	Ways        int `json:"ways"`
	MSHR        int `json:"mshr"`
	Latency     int `json:"latency"`
	ReqPerCycle int `json:"req_per_cycle"`
	PortBuf     int `json:"port_buf"`
}

// PageCfg is one pre-populated page.
type PageCfg struct {
	PID    uint32 `json:"pid"`
	VPage  uint64 `json:"vpage"`
	PPage  uint64 `json:"ppage"`
	Device uint64 `json:"device"`
	// Invalid: the entry is inserted with Valid=false (it still owns its frame).
	Invalid bool `json:"invalid,omitempty"`
	// Moved: after the insert the page is updated to physical page MovedTo (a
	// migrated page), before the run starts.
	Moved   bool   `json:"moved,omitempty"`
	MovedTo uint64 `json:"moved_to,omitempty"`
}

// VOp is one scripted access.
type VOp struct {
	PID   uint32 `json:"pid"`
	VPage uint64 `json:"vpage"`
	Off   uint64 `json:"off"`
	Size  int    `json:"n"`
	Write bool   `json:"w,omitempty"`
}

// VReq is one requester.
type VReq struct {
	MaxOut  int   `json:"max_out"`
	PortBuf int   `json:"port_buf"`
	Ops     []VOp `json:"ops"`
}

// Remap is one page-table change applied between drain and invalidate.
type Remap struct {
	PID   uint32 `json:"pid"`
	VPage uint64 `json:"vpage"`
	PPage uint64 `json:"ppage"`
}

// UpdateCfg is a page-table update history step.
type UpdateCfg struct {
	At         uint64  `json:"at"`
	Remaps     []Remap `json:"remaps"`
	FilterAddr bool    `json:"filter_addr"` // invalidate only the changed pages (else everything)
	FilterPID  bool    `json:"filter_pid"`
}

// Cfg describes one translation-stack run.
type Cfg struct {
	Log2Page       uint64      `json:"log2_page"`
	UseAT          bool        `json:"use_at"` // memory-level requests through an address translator
	ATReqPerCyc    int         `json:"at_req_per_cycle,omitempty"`
	ATPortBuf      int         `json:"at_port_buf,omitempty"`
	TLBs           []TLBCfg    `json:"tlbs"`
	MMUCache       bool        `json:"mmu_cache"`
	MCBlocks       int         `json:"mc_blocks,omitempty"`
	MCLevels       int         `json:"mc_levels,omitempty"`
	MCLatency      uint64      `json:"mc_latency,omitempty"`
	MCPortBuf      int         `json:"mc_port_buf,omitempty"`
	GMMU           bool        `json:"gmmu"`
	GMMULatency    int         `json:"gmmu_latency,omitempty"`
	GMMUDevice     uint64      `json:"gmmu_device,omitempty"`
	MMULatency     int         `json:"mmu_latency"`
	MMUInflight    int         `json:"mmu_inflight"`
	MMUPortBuf     int         `json:"mmu_port_buf"`
	AutoAlloc      bool        `json:"auto_alloc"`
	PlainPT        bool        `json:"plain_pt,omitempty"`   // the MMU gets the page table behind a minimal vm.PageTable
	DefaultPT      bool        `json:"default_pt,omitempty"` // no page table injected: the MMU builds its own (real simulations)
	Pages          []PageCfg   `json:"pages"`
	Reqs           []VReq      `json:"reqs"`
	MemDelay       int         `json:"mem_delay"`
	MemAcceptEvery int         `json:"mem_accept_every,omitempty"` // >1: the memory below the address translator takes one request every k cycles
	Updates        []UpdateCfg `json:"updates,omitempty"`
	Steps          []Step      `json:"steps,omitempty"` // free-form control script (C18 / C27 resets)
	EventCap       int         `json:"event_cap"`
}

// Step is one control request (same shape as the memory-side driver's).
type Step struct {
	Target    string   `json:"target"`
	Cmd       int      `json:"cmd"`
	Addresses []uint64 `json:"addresses,omitempty"`
	PID       uint32   `json:"pid,omitempty"`
	At        uint64   `json:"at,omitempty"`
	Wait      bool     `json:"wait"`
	Mark      string   `json:"mark,omitempty"`
}

type registrar struct {
	eng   *timing.SerialEngine
	comps []naming.Named
}

func (r *registrar) GetEngine() timing.Engine          { return r.eng }
func (r *registrar) RegisterComponent(c naming.Named)  { r.comps = append(r.comps, c) }
func (r *registrar) RegisterConnection(c naming.Named) { r.comps = append(r.comps, c) }
func (r *registrar) RegisterResource(_ naming.Named)   {}
func (r *registrar) RegisterPort(_ naming.Named)       {}

// World is one running stack plus its observations.
type World struct {
	C      *Cfg
	Eng    *timing.SerialEngine
	Reg    modeling.Registrar
	PT     vm.PageTable
	Ports  map[string]messaging.Port
	Ctrl   map[string]messaging.Port
	Names  []string // translators top-down (the ones that have a Control port)
	TopOf  map[string]messaging.Port
	Reqs   []*requester
	Mem    *memStub
	V      *kit.Violation
	Events uint64
	CapHit bool
	Seq    uint64
	Probes map[string]int
	Faults map[string]int
	mons   map[string]*topMon
	drv    *driver
	// table is the harness's own copy of the mapping (what the page table was told)
	table map[[2]uint64]vm.Page
	// stale maps (pid,vpage) -> physical page addresses that were replaced by an
	// acknowledged update: no translation may return them afterwards
	stale      map[[2]uint64]map[uint64]bool
	Strict     bool // translation results must equal the harness table exactly (no auto allocation)
	allocd     map[[2]uint64]vm.Page
	MMUReset   bool
	OnResponse func(rspTo uint64)
	// RespLog is what the requesters saw: requester, request ordinal, time, kind, payload.
	RespLog []string
}

// ExtraAttach, when set, is called on every stack after it is built (tracers of other checks).
var ExtraAttach func(w *World)

// NoEngineHook builds stacks without the harness's event-counting engine hook
// (the unobserved baseline of C33).
var NoEngineHook bool

// Domains returns the traceable library components of the stack in build order.
func (w *World) Domains() []tracing.NamedHookable {
	var out []tracing.NamedHookable

	own, isOwn := w.Reg.(*registrar)
	if !isOwn {
		return nil
	}

	for _, c := range own.comps {
		if d, ok := c.(tracing.NamedHookable); ok && !strings.HasPrefix(c.Name(), "Req") && c.Name() != "MemStub" && c.Name() != "Driver" {
			out = append(out, d)
		}
	}

	return out
}

func (w *World) fail(oracle, sig, f string, a ...any) {
	if w.V == nil {
		w.V = kit.Violate(oracle, sig, f, a...)
	}
}

func (w *World) port(comp messaging.Component, name string, buf int) messaging.Port {
	p := modeling.MakePortBuilder().WithRegistrar(w.Reg).WithComponent(comp).
		WithSpec(modeling.PortSpec{BufSize: buf}).Build(name)
	comp.AssignPort(name, p)
	w.Ports[p.Name()] = p

	return p
}

func (w *World) pageSize() uint64 { return 1 << w.C.Log2Page }

// topMon checks, at one translator's Top port, that every translation request
// is answered exactly once, to its requester, with the right page.
type topMon struct {
	w       *World
	name    string
	pending map[uint64]vmprotocol.TranslationReq
	done    map[uint64]bool
	lost    map[uint64]bool // released by a reset of this translator
}

func (m *topMon) Func(ctx hooking.HookCtx) {
	w := m.w
	w.Seq++

	switch ctx.Pos {
	case messaging.HookPosPortMsgRecvd:
		if r, ok := ctx.Item.(vmprotocol.TranslationReq); ok {
			m.pending[r.ID] = r
		}
	case messaging.HookPosPortMsgSend:
		rsp, ok := ctx.Item.(vmprotocol.TranslationRsp)
		if !ok {
			return
		}

		req, ok := m.pending[rsp.RspTo]
		if !ok {
			what := "matches no translation request delivered to it"
			if m.done[rsp.RspTo] {
				what = "answers a request a second time"
			}

			if m.lost[rsp.RspTo] {
				what = "answers a request that was delivered before its reset acknowledgment"
			}

			w.fail("translation-monitor", "C25:translator-response-unmatched["+kindOfName(m.name)+"]",
				"%s sent a TranslationRsp with RspTo=%d that %s", m.name, rsp.RspTo, what)

			return
		}

		delete(m.pending, rsp.RspTo)
		m.done[rsp.RspTo] = true

		if rsp.Dst != req.Src {
			w.fail("translation-monitor", "C25:translator-response-misaddressed["+kindOfName(m.name)+"]",
				"%s answered request %d from %s with a response addressed to %s", m.name, req.ID, req.Src, rsp.Dst)
		}

		w.checkPage(m.name, req.PID, req.VAddr, rsp.Page)
	}
}

func kindOfName(n string) string {
	switch {
	case len(n) >= 3 && n[:3] == "TLB":
		return "tlb"
	default:
		return n
	}
}

// checkPage compares a returned page with what the table says.
func (w *World) checkPage(who string, pid vm.PID, vaddr uint64, got vm.Page) {
	key := [2]uint64{uint64(pid), vaddr >> w.C.Log2Page}

	if st := w.stale[key]; st != nil && st[got.PAddr] {
		w.fail("translation-monitor", "C25:stale-mapping-after-invalidate",
			"%s returned the old physical page %#x for (pid %d, vpage %#x) after the page-table change was followed by an acknowledged invalidation", who, got.PAddr, pid, key[1])
		return
	}

	want, ok := w.table[key]
	if !ok {
		if w.C.AutoAlloc {
			if prev, seen := w.allocd[key]; seen && prev.PAddr != got.PAddr {
				w.fail("auto-allocation", "C27:two-mappings-for-one-page",
					"(pid %d, vpage %#x) was translated to %#x and later to %#x", pid, key[1], prev.PAddr, got.PAddr)
			}

			w.allocd[key] = got

			return
		}

		w.fail("translation-monitor", "C25:translation-of-unmapped-page", "%s translated unmapped (pid %d, vpage %#x)", who, pid, key[1])

		return
	}

	if got.PAddr != want.PAddr || got.VAddr != want.VAddr || got.PID != want.PID || got.PageSize != want.PageSize || !got.Valid {
		// an update in progress may legitimately still serve the previous mapping
		if w.pendingOld(key, got.PAddr) {
			return
		}

		w.fail("translation-monitor", "C25:wrong-page",
			"%s translated (pid %d, vaddr %#x) to page %+v, the page table maps it to %+v", who, pid, vaddr, got, want)
	}
}

// pendingOld: during an update (after the table change, before the invalidation
// is acknowledged) the previous mapping may still be returned.
func (w *World) pendingOld(key [2]uint64, paddr uint64) bool {
	if w.drv == nil {
		return false
	}

	return w.drv.inUpdate[key] != nil && w.drv.inUpdate[key][paddr]
}
