package evm

import (
	"fmt"

	"github.com/sarchlab/akita/v5/mem/memcontrolprotocol"

	"verif/props/ctrlmon"
	"verif/sim/kit"
)

// C18VM is one virtual-memory agent under a control script with live traffic.
type C18VM struct {
	Agent string `json:"agent"` // tlb mmucache mmu gmmu at
	Cfg   Cfg    `json:"cfg"`
}

var vmAgents = []string{"tlb", "mmucache", "mmu", "gmmu", "at"}

// GenC18VM draws an agent, its stack and a control script.
func GenC18VM(r *kit.Rand, tier kit.Tier) C18VM {
	c := C18VM{Agent: vmAgents[r.Intn(len(vmAgents))], Cfg: Gen(r, tier, false)}
	cfg := &c.Cfg
	cfg.UseAT, cfg.MMUCache, cfg.GMMU = false, false, false

	one := TLBCfg{Sets: r.PickInt(1, 2), Ways: r.PickInt(1, 2, 4), MSHR: r.PickInt(1, 2, 4), Latency: r.PickInt(1, 2, 4), ReqPerCycle: r.PickInt(1, 2, 4), PortBuf: r.PickInt(1, 2, 4)}
	target := "MMU"

	switch c.Agent {
	case "tlb":
		cfg.TLBs = []TLBCfg{one}
		target = "TLB1"
	case "mmucache":
		cfg.TLBs = nil
		cfg.MMUCache = true
		target = "MMUCache"

		if len(cfg.Reqs) > 1 {
			cfg.Reqs = cfg.Reqs[:1]
		}
	case "mmu":
		cfg.TLBs = nil
	case "gmmu":
		cfg.TLBs = nil
		cfg.GMMU = true
		target = "GMMU"
	case "at":
		cfg.TLBs = []TLBCfg{one}
		cfg.UseAT = true
		target = "AT"
	}

	n := r.Range(1, 8)
	t := uint64(0)

	for i := 0; i < n; i++ {
		cmd := r.Weighted(4, 4, 4, 2, 3, 1)
		st := Step{Target: target, Cmd: cmd, Wait: r.Chance(1, 2)}

		if r.Chance(2, 3) {
			t += uint64(r.PickInt(0, 1000, 3000, 10000, 50000))
			st.At = t
		}

		if cmd == int(memcontrolprotocol.CmdInvalidate) || cmd == int(memcontrolprotocol.CmdFlush) {
			if r.Chance(1, 2) {
				for k := 0; k < r.Range(1, 3); k++ {
					st.Addresses = append(st.Addresses, uint64(r.Intn(8))<<cfg.Log2Page)
				}
			}

			if r.Chance(1, 3) {
				st.PID = uint32(r.Intn(3))
			}
		}

		cfg.Steps = append(cfg.Steps, st)
	}

	cfg.Steps = append(cfg.Steps, Step{Target: target, Cmd: int(memcontrolprotocol.CmdEnable), Wait: true})

	return c
}

func vmSupport(agent string) memcontrolprotocol.VerbSupport {
	if agent == "tlb" || agent == "mmucache" {
		return memcontrolprotocol.TranslationCacheLike()
	}

	return memcontrolprotocol.Universal()
}

// ExecC18VM runs the agent under its script and applies the protocol monitor.
func ExecC18VM(c C18VM, _ *kit.Env) kit.Outcome {
	var out kit.Outcome

	w := Build(&c.Cfg)
	d := w.attachDriver(c.Cfg.Steps)
	name := c.Cfg.Steps[0].Target
	mon := ctrlmon.New(name, c.Agent, vmSupport(c.Agent))
	mon.Fail = w.fail
	mon.Release = func(id uint64, forget bool) {
		for _, r := range w.Reqs {
			if _, ok := r.out[id]; ok {
				delete(r.out, id)
				d.released[id] = true
				r.tc.TickLater()
			}
		}

		if m := w.mons[name]; m != nil {
			if _, ok := m.pending[id]; ok {
				delete(m.pending, id)

				if forget {
					m.lost[id] = true
				} else {
					m.done[id] = true
				}
			}
		}
	}
	w.OnResponse = func(id uint64) { mon.Received[id] = true }

	w.Ports[name+".Top"].AcceptHook(mon.Hook("top"))
	w.Ports[name+".Control"].AcceptHook(mon.Hook("control"))

	for _, dn := range []string{".Bottom", ".Translation"} {
		if p, ok := w.Ports[name+dn]; ok {
			p.AcceptHook(mon.Hook("down"))
		}
	}

	w.Run()

	if w.V == nil && !w.CapHit && !d.done() {
		w.fail("control-monitor", "C18:control-request-unanswered", "run ended at t=%d with the control script at step %d of %d and %d request(s) never acknowledged (%s)", w.Eng.CurrentTime(), d.next, len(c.Cfg.Steps), len(d.waiting), c.Agent)
	}

	finish(&out, &c.Cfg, w)
	out.Violation = w.V

	if out.Violation != nil && len(out.Violation.Sig) > 3 && out.Violation.Sig[:3] != "C18" {
		out.Violation.Sig = "C18:via-" + out.Violation.Sig + "(" + c.Agent + ")"
	}

	out.Fault("reset-with-traffic", mon.Resets)
	out.Fault("drain-with-traffic", mon.Drains)
	out.Probe("refused-verbs", mon.Refusals)
	out.Probe("drain-or-flush-started-while-paused", mon.AsyncWhilePaused)
	out.Probe("requests-delivered-while-paused", mon.QueuedDuringPause)
	out.Probe("agent:"+c.Agent, 1)
	out.NonTrivial = len(d.acks) >= 2 && len(mon.Delivered) > 0
	out.Shape = fmt.Sprintf("%s|%s|%v", c.Agent, out.Shape, c.Cfg.Steps)
	out.Sample = map[string]any{"agent": c.Agent, "stack": describe(&c.Cfg), "steps": len(c.Cfg.Steps), "acks": len(d.acks)}

	return out
}

// ShrinkC18VM shrinks the script and the workload.
func ShrinkC18VM(c C18VM) []C18VM {
	var out []C18VM

	steps := c.Cfg.Steps
	for _, l := range kit.ListShrinks(steps[:len(steps)-1]) {
		q := c
		q.Cfg.Steps = append(append([]Step(nil), l...), steps[len(steps)-1])
		out = append(out, q)
	}

	for i := range c.Cfg.Reqs {
		for _, l := range kit.ListShrinks(c.Cfg.Reqs[i].Ops) {
			if len(l) == 0 {
				continue
			}

			q := c
			q.Cfg.Reqs = append([]VReq(nil), c.Cfg.Reqs...)
			q.Cfg.Reqs[i].Ops = l
			out = append(out, q)
		}
	}

	return out
}

// HasReset reports whether the control script contains a reset.
func (c C18VM) HasReset() bool {
	for _, s := range c.Cfg.Steps {
		if s.Cmd == int(memcontrolprotocol.CmdReset) {
			return true
		}
	}

	return false
}
