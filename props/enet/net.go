// Package enet simulates assemblies of harness agents (ticking and
// event-driven components built with the real modeling package) joined by real
// direct connections, under seeded send scripts, forwarding routes, buffer
// capacities, clock frequencies and receiver stalls. One run feeds the oracles
// of C09 (no lost wakeups), C10 (exactly-once, in-order delivery), the in-situ
// port monitor of C11 and the tick monitor of C12.
package enet

import (
	"fmt"
	"reflect"
	"sort"

	"github.com/sarchlab/akita/v5/hooking"
	"github.com/sarchlab/akita/v5/messaging"
	"github.com/sarchlab/akita/v5/modeling"
	"github.com/sarchlab/akita/v5/noc/directconnection"
	"github.com/sarchlab/akita/v5/timing"

	"verif/sim/kit"
)

// PortSpec is one port of an agent.
type PortSpec struct {
	Cap    int `json:"cap"`               // incoming (and, unless OutCap is set, outgoing) capacity
	OutCap int `json:"out_cap,omitempty"` // outgoing capacity when different
	Conn   int `json:"conn"`
}

// AgentSpec is one harness component.
type AgentSpec struct {
	Event   bool        `json:"event"`             // event-driven (else ticking)
	FreqHz  uint64      `json:"freq_hz,omitempty"` // ticking only
	Ports   []PortSpec  `json:"ports"`
	MaxRecv int         `json:"max_recv"`         // messages retrieved per port per wake
	Stalls  [][2]uint64 `json:"stalls,omitempty"` // [start,end) windows without draining
	NowWake bool        `json:"now_wake"`         // ticking: external pokes use TickNow (else TickLater)
}

// Hop is one transmission of a route: out of port From (agent-local port of the
// agent holding the message) to port To.
type Hop struct {
	FromAgent int `json:"fa"`
	FromPort  int `json:"fp"`
	ToAgent   int `json:"ta"`
	ToPort    int `json:"tp"`
}

// SendSpec is one message: injected at Time at the first hop's agent, then
// forwarded hop by hop on receipt.
type SendSpec struct {
	Time  uint64 `json:"t"`
	Route []Hop  `json:"route"`
	Bytes int    `json:"bytes"`
}

// NetCase is the explicit script of one run.
type NetCase struct {
	ConnFreqHz []uint64    `json:"conn_freq_hz"`
	Agents     []AgentSpec `json:"agents"`
	Sends      []SendSpec  `json:"sends"`
	EventCap   int         `json:"event_cap"`
}

type netMsg struct {
	messaging.MsgMeta
	Seq   int
	HopIx int
	Route []Hop
	Pad   []byte
}

type edSpec struct {
	N int `json:"n"`
}
type edState struct {
	N int `json:"n"`
}

type obs struct {
	seq  uint64
	time uint64
	kind string // send recv retrI retrO
	port string
	msg  netMsg
}

type tickRec struct {
	comp     string
	time     uint64
	progress bool
	evSeq    uint64
}

type agent struct {
	idx     int
	spec    AgentSpec
	name    string
	ports   []messaging.Port
	pending [][]netMsg
	tc      *modeling.TickingComponent
	ed      *modeling.EventDrivenComponent[edSpec, edState, modeling.None]
	w       *world
	ticks   int
	sent    int
	recvd   int
}

type world struct {
	c        *NetCase
	eng      *timing.SerialEngine
	agents   []*agent
	conns    []*directconnection.Comp
	portByNm map[string]messaging.Port
	portCap  map[string]int
	portOut  map[string]int
	portOwn  map[string]*agent
	obs      []obs
	seq      uint64
	events   uint64
	ticks    []tickRec
	curTick  int // index into ticks of the tick event being handled, -1 otherwise
	msgID    uint64
	capHit   bool
	// C11 in-situ model
	inQ, outQ map[string][]netMsg
	monErr    *kit.Violation
	// notifications observed at agent ports: time of empty->non-empty receive and full->not-full outgoing
	recvNotif map[string][]uint64 // agent name -> times
	freeNotif map[string][]uint64
	probes    map[string]int
}

func (a *agent) stalledAt(now uint64) (bool, uint64) {
	for _, s := range a.spec.Stalls {
		if now >= s[0] && now < s[1] {
			return true, s[1]
		}
	}

	return false, 0
}

// work is the behaviour of an agent when woken: drain what the drain pattern
// allows, forward, then send what the ports accept.
func (a *agent) work(now uint64) bool {
	progress := false
	stalled, until := a.stalledAt(now)

	if !stalled {
		for pi, p := range a.ports {
			for k := 0; k < a.spec.MaxRecv; k++ {
				m := p.RetrieveIncoming()
				if m == nil {
					break
				}

				progress = true
				a.recvd++
				nm := m.(netMsg)

				if nm.HopIx+1 < len(nm.Route) {
					h := nm.Route[nm.HopIx+1]
					if h.FromAgent != a.idx {
						panic(kit.HarnessError(fmt.Sprintf("route of msg %d hop %d leaves from agent %d but arrived at %d (port %d)", nm.Seq, nm.HopIx+1, h.FromAgent, a.idx, pi)))
					}

					a.enqueue(nm.Seq, nm.HopIx+1, nm.Route, len(nm.Pad))
				}
			}
		}
	} else {
		hasIncoming := false
		for _, p := range a.ports {
			if p.NumIncoming() > 0 {
				hasIncoming = true
			}
		}

		if hasIncoming {
			a.w.probes["receiver-stalled-with-unread-input"]++

			if a.ed != nil {
				a.ed.ScheduleWakeAt(timing.VTimeInPicoSec(until))
			}
		}
	}

	if !stalled && a.ed != nil {
		// an event-driven component that leaves input unread (MaxRecv) has to ask
		// for its own next wakeup; a ticking one is re-ticked because it progressed.
		for _, p := range a.ports {
			if p.NumIncoming() > 0 {
				a.ed.ScheduleWakeAt(timing.VTimeInPicoSec(now + 1000))
				break
			}
		}
	}

	for pi, p := range a.ports {
		for len(a.pending[pi]) > 0 {
			if !p.CanSend() {
				a.w.probes["send-blocked-by-full-outgoing-buffer"]++
				break
			}

			m := a.pending[pi][0]
			a.pending[pi] = a.pending[pi][1:]
			a.w.msgID++
			m.ID = a.w.msgID
			p.Send(m)

			a.sent++
			progress = true
		}
	}

	return progress
}

func (a *agent) enqueue(seq, hopIx int, route []Hop, bytes int) {
	h := route[hopIx]
	src := a.ports[h.FromPort]
	dst := a.w.agents[h.ToAgent].ports[h.ToPort]
	pad := make([]byte, bytes)

	for i := range pad {
		pad[i] = byte(seq*7 + i)
	}

	m := netMsg{
		MsgMeta: messaging.MsgMeta{Src: src.AsRemote(), Dst: dst.AsRemote(), TrafficBytes: bytes, TrafficClass: "net"},
		Seq:     seq, HopIx: hopIx, Route: route, Pad: pad,
	}
	a.pending[h.FromPort] = append(a.pending[h.FromPort], m)
}

// Tick implements modeling.Ticker for ticking agents.
func (a *agent) Tick() bool {
	a.ticks++
	now := uint64(a.w.eng.CurrentTime())
	p := a.work(now)

	if a.w.curTick >= 0 && a.w.ticks[a.w.curTick].comp == a.name {
		a.w.ticks[a.w.curTick].progress = p
	}

	return p
}

type edProc struct{ a *agent }

func (p edProc) Process(_ *modeling.EventDrivenComponent[edSpec, edState, modeling.None], now timing.VTimeInPicoSec) bool {
	return p.a.work(uint64(now))
}

func (a *agent) poke() {
	if a.ed != nil {
		a.ed.ScheduleWakeNow()
		return
	}

	if a.spec.NowWake {
		a.tc.TickNow()
	} else {
		a.tc.TickLater()
	}
}

type pokeEvent struct {
	time  timing.VTimeInPicoSec
	agent int
	send  int // index into Sends, or -1 for a plain wake
}

func (e pokeEvent) Time() timing.VTimeInPicoSec { return e.time }
func (e pokeEvent) HandlerID() string           { return "Poker" }
func (e pokeEvent) IsSecondary() bool           { return false }

type poker struct{ w *world }

func (p poker) Handle(e timing.Event) error {
	pe := e.(pokeEvent)
	a := p.w.agents[pe.agent]

	if pe.send >= 0 {
		s := p.w.c.Sends[pe.send]
		a.enqueue(pe.send, 0, s.Route, s.Bytes)
	}

	a.poke()

	return nil
}

type portHook struct {
	w    *world
	port messaging.Port
}

func (h portHook) Func(ctx hooking.HookCtx) {
	w := h.w
	m, ok := ctx.Item.(netMsg)

	if !ok {
		return
	}

	name := h.port.Name()
	w.seq++
	o := obs{seq: w.seq, time: uint64(w.eng.CurrentTime()), port: name, msg: m}
	own := w.portOwn[name]

	switch ctx.Pos {
	case messaging.HookPosPortMsgSend:
		o.kind = "send"

		if len(w.outQ[name]) >= w.portOut[name] {
			w.fail("C11:outgoing-overflow", "port %s accepted a send with %d messages already in an outgoing buffer of capacity %d", name, len(w.outQ[name]), w.portOut[name])
		}

		w.outQ[name] = append(w.outQ[name], m)
	case messaging.HookPosPortMsgRecvd:
		o.kind = "recv"

		if len(w.inQ[name]) >= w.portCap[name] {
			w.fail("C11:incoming-overflow", "port %s took delivery with %d messages already in an incoming buffer of capacity %d", name, len(w.inQ[name]), w.portCap[name])
		}

		if len(w.inQ[name]) == 0 && own != nil {
			w.recvNotif[own.name] = append(w.recvNotif[own.name], o.time)
		}

		w.inQ[name] = append(w.inQ[name], m)

		if w.curTick >= 0 {
			w.ticks[w.curTick].progress = true
		}
	case messaging.HookPosPortMsgRetrieveIncoming:
		o.kind = "retrI"

		if len(w.inQ[name]) == 0 || !reflect.DeepEqual(w.inQ[name][0], m) {
			w.fail("C11:incoming-fifo", "port %s returned message seq=%d hop=%d from its incoming buffer, model head is %v", name, m.Seq, m.HopIx, headOf(w.inQ[name]))
		} else {
			w.inQ[name] = w.inQ[name][1:]
		}
	case messaging.HookPosPortMsgRetrieveOutgoing:
		o.kind = "retrO"

		if len(w.outQ[name]) == 0 || !reflect.DeepEqual(w.outQ[name][0], m) {
			w.fail("C11:outgoing-fifo", "port %s returned message seq=%d hop=%d from its outgoing buffer, model head is %v", name, m.Seq, m.HopIx, headOf(w.outQ[name]))
		} else {
			if len(w.outQ[name]) == w.portOut[name] && own != nil {
				w.freeNotif[own.name] = append(w.freeNotif[own.name], o.time)
			}

			w.outQ[name] = w.outQ[name][1:]
		}
	}

	w.obs = append(w.obs, o)
}

func headOf(q []netMsg) string {
	if len(q) == 0 {
		return "<empty>"
	}

	return fmt.Sprintf("seq=%d hop=%d", q[0].Seq, q[0].HopIx)
}

func (w *world) fail(sig, f string, a ...any) {
	if w.monErr == nil {
		w.monErr = kit.Violate("port-monitor", sig, f, a...)
	}
}

type capExceeded struct{}

type engHook struct{ w *world }

func (h engHook) Func(ctx hooking.HookCtx) {
	w := h.w

	switch ctx.Pos {
	case timing.HookPosBeforeEvent:
		w.events++
		if int(w.events) > w.c.EventCap {
			w.capHit = true
			panic(capExceeded{})
		}

		if te, ok := ctx.Item.(modeling.TickEvent); ok {
			w.ticks = append(w.ticks, tickRec{comp: te.HandlerID(), time: uint64(te.Time()), evSeq: w.events})
			w.curTick = len(w.ticks) - 1
		} else {
			w.curTick = -1
		}
	case timing.HookPosAfterEvent:
		w.curTick = -1

		// C11 in-situ: reported sizes match the model and respect capacity.
		for name, p := range w.portByNm {
			if p.NumIncoming() != len(w.inQ[name]) || p.NumOutgoing() != len(w.outQ[name]) {
				w.fail("C11:size-report", "port %s reports %d incoming / %d outgoing, model has %d / %d", name, p.NumIncoming(), p.NumOutgoing(), len(w.inQ[name]), len(w.outQ[name]))
			}

			if p.NumIncoming() > w.portCap[name] || p.NumOutgoing() > w.portOut[name] {
				w.fail("C11:capacity", "port %s holds %d incoming / %d outgoing with capacity %d", name, p.NumIncoming(), p.NumOutgoing(), w.portCap[name])
			}
		}
	}
}

func build(c *NetCase) *world {
	w := &world{
		c: c, eng: timing.NewSerialEngine(), portByNm: map[string]messaging.Port{},
		portCap: map[string]int{}, portOut: map[string]int{}, portOwn: map[string]*agent{}, curTick: -1,
		inQ: map[string][]netMsg{}, outQ: map[string][]netMsg{},
		recvNotif: map[string][]uint64{}, freeNotif: map[string][]uint64{}, probes: map[string]int{},
	}
	reg := modeling.NewStandaloneRegistrar(w.eng)

	for i, f := range c.ConnFreqHz {
		spec := directconnection.DefaultSpec()
		spec.Freq = timing.Freq(f)
		w.conns = append(w.conns, directconnection.MakeBuilder().WithRegistrar(reg).WithSpec(spec).Build(fmt.Sprintf("Conn%d", i)))
	}

	for i, as := range c.Agents {
		a := &agent{idx: i, spec: as, name: fmt.Sprintf("Agent%d", i), w: w, pending: make([][]netMsg, len(as.Ports))}

		var owner messaging.Component

		if as.Event {
			a.ed = modeling.NewEventDrivenBuilder[edSpec, edState, modeling.None]().
				WithEngine(w.eng).WithSpec(edSpec{}).WithProcessor(edProc{a}).Build(a.name)
			owner = a.ed
		} else {
			a.tc = modeling.NewTickingComponent(a.name, w.eng, timing.Freq(as.FreqHz), a)
			owner = a.tc
		}

		for pi, ps := range as.Ports {
			pn := fmt.Sprintf("P%d", pi)
			outCap := ps.Cap
			if ps.OutCap > 0 {
				outCap = ps.OutCap
			}

			p := messaging.NewPort(owner, ps.Cap, outCap, a.name+"."+pn)
			owner.DeclarePort(pn)
			owner.AssignPort(pn, p)
			w.conns[ps.Conn].PlugIn(p)
			p.AcceptHook(portHook{w, p})
			a.ports = append(a.ports, p)
			w.portByNm[p.Name()] = p
			w.portCap[p.Name()] = ps.Cap
			w.portOut[p.Name()] = outCap
			w.portOwn[p.Name()] = a
		}

		w.agents = append(w.agents, a)
	}

	w.eng.RegisterHandler("Poker", poker{w})
	w.eng.AcceptHook(engHook{w})

	for si, s := range c.Sends {
		w.eng.Schedule(pokeEvent{time: timing.VTimeInPicoSec(s.Time), agent: s.Route[0].FromAgent, send: si})
	}

	for i, as := range c.Agents {
		for _, st := range as.Stalls {
			w.eng.Schedule(pokeEvent{time: timing.VTimeInPicoSec(st[1]), agent: i, send: -1})
		}
	}

	return w
}

func (w *world) run() (err any) {
	defer func() {
		if r := recover(); r != nil {
			if _, ok := r.(capExceeded); ok {
				return
			}

			panic(r)
		}
	}()

	_ = w.eng.Run()

	return nil
}

var freqs = []uint64{1_000_000_000, 1_000_000_000, 500_000_000, 750_000_000, 3_000_000_000, 2_000_000_000, 1_000_000}

// GenNet draws a topology and traffic script. maxConns bounds the number of
// direct connections (1 for the C10 single-connection runs).
func GenNet(r *kit.Rand, tier kit.Tier, maxConns int) NetCase {
	var c NetCase

	nc := r.Range(1, maxConns)
	mixedFreq := r.Chance(1, 2)

	for i := 0; i < nc; i++ {
		f := uint64(1_000_000_000)
		if mixedFreq {
			f = freqs[r.Intn(len(freqs)-1)]
		}

		c.ConnFreqHz = append(c.ConnFreqHz, f)
	}

	na := r.Range(2, 6)
	capMode := r.Intn(3) // 0: all 1, 1: 1-4, 2: mixed
	asym := r.Chance(1, 3) // ports whose outgoing capacity differs from the incoming one
	evBias := r.Intn(4)  // how many agents are event-driven: 0 none .. 3 most
	stallBias := r.Intn(3)
	lattice := r.PickU64(1000, 1000, 500, 2000, 333)
	horizon := uint64(r.Range(3, 40)) * 1000

	connMembers := make([][][2]int, nc)

	for i := 0; i < na; i++ {
		a := AgentSpec{Event: r.Chance(evBias, 3), MaxRecv: r.PickInt(1, 1, 2, 8), NowWake: r.Bool()}
		a.FreqHz = 1_000_000_000

		if mixedFreq {
			a.FreqHz = freqs[r.Intn(len(freqs)-1)]
		}

		np := r.Range(1, 3)
		for p := 0; p < np; p++ {
			capv := 1

			switch capMode {
			case 1:
				capv = r.Range(1, 4)
			case 2:
				capv = r.PickInt(1, 1, 2, 4, 8)
			}

			conn := r.Intn(nc)
			ps := PortSpec{Cap: capv, Conn: conn}

			if asym && r.Bool() {
				ps.OutCap = r.PickInt(1, 2, 3, 4, 8)
			}

			a.Ports = append(a.Ports, ps)
			connMembers[conn] = append(connMembers[conn], [2]int{i, p})
		}

		if stallBias > 0 && r.Chance(stallBias, 3) {
			ns := r.Range(1, 3)
			t := uint64(r.Intn(int(horizon)))

			for k := 0; k < ns; k++ {
				l := uint64(r.PickInt(500, 1000, 3000, 10000, 50000))
				a.Stalls = append(a.Stalls, [2]uint64{t, t + l})
				t += l + uint64(r.Intn(5000))
			}
		}

		c.Agents = append(c.Agents, a)
	}

	// make sure every connection has at least two ports on different agents
	// where possible; unusable connections simply carry no traffic.
	peers := func(conn, agentIdx int) [][2]int {
		var out [][2]int
		for _, m := range connMembers[conn] {
			if m[0] != agentIdx {
				out = append(out, m)
			}
		}

		return out
	}

	ns := r.Range(1, 30)
	if tier == kit.Thorough {
		ns = r.Range(1, 150)
	}

	burst := r.Chance(1, 3)

	for s := 0; s < ns; s++ {
		t := uint64(r.Intn(int(horizon/lattice)+1)) * lattice
		if burst {
			t = uint64(r.Intn(3)) * lattice
		}

		if r.Chance(1, 8) {
			t += uint64(r.Intn(700)) // off-edge
		}

		var route []Hop

		cur := r.Intn(na)
		hops := r.Weighted(5, 3, 2, 1)

		for h := 0; h <= hops; h++ {
			a := c.Agents[cur]
			fp := r.Intn(len(a.Ports))
			ps := peers(a.Ports[fp].Conn, cur)

			if len(ps) == 0 {
				break
			}

			to := ps[r.Intn(len(ps))]
			route = append(route, Hop{FromAgent: cur, FromPort: fp, ToAgent: to[0], ToPort: to[1]})
			cur = to[0]
		}

		if len(route) == 0 {
			continue
		}

		c.Sends = append(c.Sends, SendSpec{Time: t, Route: route, Bytes: r.PickInt(0, 1, 4, 64)})
	}

	c.EventCap = 2000 + 400*len(c.Sends)*5

	return c
}

// transmission identifies one hop of one message.
type txKey struct{ seq, hop int }

type result struct {
	w          *world
	sends      map[txKey]obs
	recvs      map[txKey][]obs
	simTime    uint64
	totalHops  int
	multiHop   int
	sameInstFw int
}

func analyse(w *world) *result {
	r := &result{w: w, sends: map[txKey]obs{}, recvs: map[txKey][]obs{}}

	for _, o := range w.obs {
		k := txKey{o.msg.Seq, o.msg.HopIx}

		switch o.kind {
		case "send":
			r.sends[k] = o

			if o.msg.HopIx > 0 {
				if prev, ok := r.recvs[txKey{o.msg.Seq, o.msg.HopIx - 1}]; ok && len(prev) > 0 && prev[0].time == o.time {
					r.sameInstFw++
				}
			}
		case "recv":
			r.recvs[k] = append(r.recvs[k], o)
		}

		if o.time > r.simTime {
			r.simTime = o.time
		}
	}

	for _, s := range w.c.Sends {
		r.totalHops += len(s.Route)
		if len(s.Route) > 1 {
			r.multiHop++
		}
	}

	return r
}

func (r *result) fill(out *kit.Outcome) {
	w := r.w
	out.Events = w.events
	out.SimTimePs = r.simTime
	stalls := 0

	for _, a := range w.c.Agents {
		stalls += len(a.Stalls)
	}

	out.Fault("receiver-stall-window", stalls)
	out.Fault("back-pressure(send-blocked)", w.probes["send-blocked-by-full-outgoing-buffer"])

	for k, v := range w.probes {
		out.Probe(k, v)
	}

	out.Probe("same-instant-forward", r.sameInstFw)
	out.Probe("multi-hop-message", r.multiHop)

	ev, tk := 0, 0

	for _, a := range w.c.Agents {
		if a.Event {
			ev++
		} else {
			tk++
		}
	}

	out.Probe("mixed-event-and-ticking", btoi(ev > 0 && tk > 0))
}

func btoi(b bool) int {
	if b {
		return 1
	}

	return 0
}

func shapeOf(w *world) string {
	s := ""
	for _, o := range w.obs {
		s += fmt.Sprintf("%s%d.%d@%d;", o.kind[:1], o.msg.Seq, o.msg.HopIx, o.time)
	}

	return s
}

// ---- oracles ---------------------------------------------------------------

// quiescenceC09 checks the two conditions of the statement after Run returned,
// plus the harness-level consequences (a sender never woken after its port freed
// a slot; a message never delivered).
func quiescenceC09(r *result) *kit.Violation {
	w := r.w

	names := make([]string, 0, len(w.portByNm))
	for n := range w.portByNm {
		names = append(names, n)
	}

	sort.Strings(names)

	for _, n := range names {
		p := w.portByNm[n]
		if head := p.PeekOutgoing(); head != nil {
			dst := w.portByNm[string(head.Meta().Dst)]
			if dst != nil && dst.CanDeliver() {
				return kit.Violate("quiescence", "C09:deliverable-message-stuck",
					"event queue empty at t=%d but port %s still holds an outgoing message (seq=%d hop=%d) for %s, which can accept it",
					w.eng.CurrentTime(), n, head.(netMsg).Seq, head.(netMsg).HopIx, head.Meta().Dst)
			}
		}
	}

	for _, a := range w.agents {
		for _, p := range a.ports {
			if p.NumIncoming() > 0 {
				return kit.Violate("quiescence", "C09:unread-incoming",
					"event queue empty at t=%d but draining component %s (event-driven=%v) has %d unread message(s) at %s",
					w.eng.CurrentTime(), a.name, a.spec.Event, p.NumIncoming(), p.Name())
			}
		}
	}

	for _, a := range w.agents {
		for pi, q := range a.pending {
			if len(q) > 0 && a.ports[pi].CanSend() {
				return kit.Violate("quiescence", "C09:sender-not-woken",
					"event queue empty at t=%d but %s was never woken after %s freed a slot (%d message(s) waiting to be sent)",
					w.eng.CurrentTime(), a.name, a.ports[pi].Name(), len(q))
			}
		}
	}

	for si, s := range w.c.Sends {
		for h := range s.Route {
			if len(r.recvs[txKey{si, h}]) == 0 {
				return kit.Violate("quiescence", "C09:message-never-delivered",
					"event queue empty at t=%d but message %d hop %d was never delivered", w.eng.CurrentTime(), si, h)
			}
		}
	}

	return nil
}

// deliveryC10: exactly once, intact, to the named port only, in per-source order.
func deliveryC10(r *result) *kit.Violation {
	w := r.w

	for k, rs := range r.recvs {
		s, ok := r.sends[k]
		if !ok {
			return kit.Violate("delivery", "C10:phantom", "message seq=%d hop=%d delivered at %s but never sent", k.seq, k.hop, rs[0].port)
		}

		if len(rs) > 1 {
			return kit.Violate("delivery", "C10:duplicate", "message seq=%d hop=%d delivered %d times (%s, %s)", k.seq, k.hop, len(rs), rs[0].port, rs[1].port)
		}

		if rs[0].port != string(s.msg.Dst) {
			return kit.Violate("delivery", "C10:wrong-port", "message seq=%d hop=%d for %s delivered to %s", k.seq, k.hop, s.msg.Dst, rs[0].port)
		}

		if !reflect.DeepEqual(rs[0].msg, s.msg) {
			return kit.Violate("delivery", "C10:modified", "message seq=%d hop=%d changed in flight: sent %+v delivered %+v", k.seq, k.hop, s.msg, rs[0].msg)
		}

		if rs[0].seq < s.seq {
			return kit.Violate("delivery", "C10:before-send", "message seq=%d hop=%d delivered before it was sent", k.seq, k.hop)
		}
	}

	if !w.capHit {
		for k, s := range r.sends {
			if len(r.recvs[k]) == 0 {
				return kit.Violate("delivery", "C10:lost", "message seq=%d hop=%d sent from %s at t=%d was never delivered (run ended at t=%d)", k.seq, k.hop, s.port, s.time, w.eng.CurrentTime())
			}
		}
	}

	// order per source port
	bySrc := map[string][]obs{}
	for _, o := range w.obs {
		if o.kind == "send" {
			bySrc[o.port] = append(bySrc[o.port], o)
		}
	}

	for src, ss := range bySrc {
		last := uint64(0)

		for _, s := range ss {
			rs := r.recvs[txKey{s.msg.Seq, s.msg.HopIx}]
			if len(rs) == 0 {
				continue
			}

			if rs[0].seq < last {
				return kit.Violate("delivery", "C10:reordered", "messages from source port %s were delivered out of their send order (seq=%d hop=%d overtook an earlier message)", src, s.msg.Seq, s.msg.HopIx)
			}

			last = rs[0].seq
		}
	}

	return nil
}

// ticksC12 checks the tick monitor.
func ticksC12(r *result) *kit.Violation {
	w := r.w
	period := map[string]uint64{}

	for i, f := range w.c.ConnFreqHz {
		period[fmt.Sprintf("Conn%d", i)] = uint64(timing.Freq(f).Period())
	}

	for _, a := range w.agents {
		if a.tc != nil {
			period[a.name] = uint64(timing.Freq(a.spec.FreqHz).Period())
		}
	}

	byComp := map[string][]tickRec{}

	for _, t := range w.ticks {
		p, ok := period[t.comp]
		if !ok {
			continue
		}

		if t.time%p != 0 {
			return kit.Violate("tick-monitor", "C12:off-edge", "%s (period %d ps) ticked at t=%d, not a multiple of its period", t.comp, p, t.time)
		}

		if prev := byComp[t.comp]; len(prev) > 0 && prev[len(prev)-1].time == t.time {
			return kit.Violate("tick-monitor", "C12:double-tick", "%s ticked twice at t=%d", t.comp, t.time)
		}

		byComp[t.comp] = append(byComp[t.comp], t)
	}

	if w.capHit {
		return nil
	}

	for comp, ts := range byComp {
		p := period[comp]

		for i, t := range ts {
			if !t.progress {
				continue
			}

			if i+1 >= len(ts) {
				return kit.Violate("tick-monitor", "C12:no-tick-after-progress", "%s made progress in its tick at t=%d but was never ticked again", comp, t.time)
			}

			if ts[i+1].time != t.time+p {
				return kit.Violate("tick-monitor", "C12:next-tick-not-next-edge", "%s made progress at t=%d (period %d) but its next tick is at t=%d", comp, t.time, p, ts[i+1].time)
			}
		}
	}

	for _, a := range w.agents {
		if a.tc == nil {
			continue
		}

		ts := byComp[a.name]
		lastTick := uint64(0)
		has := len(ts) > 0

		if has {
			lastTick = ts[len(ts)-1].time
		}

		for _, t := range w.recvNotif[a.name] {
			if !has || lastTick <= t {
				return kit.Violate("tick-monitor", "C12:no-tick-after-receive", "%s received a message into an empty buffer at t=%d but was not ticked at any later clock edge", a.name, t)
			}
		}

		for _, t := range w.freeNotif[a.name] {
			if !has || lastTick <= t {
				return kit.Violate("tick-monitor", "C12:no-tick-after-port-free", "%s had a full outgoing buffer freed at t=%d but was not ticked at any later clock edge", a.name, t)
			}
		}
	}

	return nil
}
