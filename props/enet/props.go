package enet

import (
	"fmt"

	"github.com/sarchlab/akita/v5/timing"

	"verif/props/tracelog"
	"verif/sim/kit"
)

func runCase(c NetCase) (*result, kit.Outcome) {
	var out kit.Outcome

	timing.ResetIDGenerator()
	timing.UseSequentialIDGenerator()

	w := build(&c)
	w.run()

	r := analyse(w)
	r.fill(&out)
	out.Shape = shapeOf(w)
	out.Sample = map[string]any{
		"agents": len(c.Agents), "connections": len(c.ConnFreqHz), "messages": len(c.Sends),
		"hops": r.totalHops, "events": w.events, "end_time_ps": uint64(w.eng.CurrentTime()),
	}

	if w.capHit {
		out.Inconclusive = "event-cap"
	}

	return r, out
}

func execC09(c NetCase, _ *kit.Env) kit.Outcome {
	r, out := runCase(c)
	if r.w.capHit {
		return out
	}

	out.Violation = quiescenceC09(r)
	out.NonTrivial = r.totalHops >= 2 && (r.w.probes["send-blocked-by-full-outgoing-buffer"] > 0 || r.sameInstFw > 0 || r.w.probes["receiver-stalled-with-unread-input"] > 0)

	return out
}

func execC10(c NetCase, _ *kit.Env) kit.Outcome {
	r, out := runCase(c)
	out.Violation = deliveryC10(r)
	out.NonTrivial = r.totalHops >= 2 && (r.w.probes["send-blocked-by-full-outgoing-buffer"] > 0 || r.w.probes["receiver-stalled-with-unread-input"] > 0)

	return out
}

func execC12(c NetCase, _ *kit.Env) kit.Outcome {
	r, out := runCase(c)
	out.Violation = ticksC12(r)

	nt := 0
	for _, a := range c.Agents {
		if !a.Event {
			nt++
		}
	}

	out.NonTrivial = nt > 0 && len(r.w.ticks) >= 4

	return out
}

func shrinkNet(c NetCase) []NetCase {
	var out []NetCase

	for _, l := range kit.ListShrinks(c.Sends) {
		q := c
		q.Sends = l
		out = append(out, q)
	}

	for i, s := range c.Sends {
		if len(s.Route) > 1 {
			q := c
			q.Sends = append([]SendSpec(nil), c.Sends...)
			q.Sends[i].Route = s.Route[:len(s.Route)-1]
			out = append(out, q)
		}

		if s.Bytes > 0 {
			q := c
			q.Sends = append([]SendSpec(nil), c.Sends...)
			q.Sends[i].Bytes = 0
			out = append(out, q)
		}
	}

	for i, a := range c.Agents {
		if len(a.Stalls) > 0 {
			q := c
			q.Agents = append([]AgentSpec(nil), c.Agents...)
			q.Agents[i].Stalls = a.Stalls[:len(a.Stalls)-1]
			out = append(out, q)
		}

		if a.FreqHz != 1_000_000_000 && !a.Event {
			q := c
			q.Agents = append([]AgentSpec(nil), c.Agents...)
			q.Agents[i].FreqHz = 1_000_000_000
			out = append(out, q)
		}
	}

	return out
}

const netRule = "random topologies of 2-6 harness agents (ticking with mixed clock periods 333/500/1000/1333/2000/10^6 ps, or event-driven) x 1-3 ports (capacity 1-8, biased to 1) on %s real direct connection(s); " +
	"1-30 (thorough 1-150) messages injected on a coarse time lattice (plus off-edge times and bursts) with 1-4 hop forwarding routes (forward on receipt, same instant for event-driven agents), receiver stall windows that all end; "

func init() {
	real := []string{"noc/directconnection.Comp", "messaging.Port (defaultPort)", "modeling.TickingComponent / TickScheduler", "modeling.EventDrivenComponent", "timing.SerialEngine"}
	stubs := []string{"agent behaviour (harness Ticker / EventProcessor)", "poke events (timers)"}
	faults := []string{"receiver-stall-window", "back-pressure(send-blocked)"}

	kit.Register(kit.Spec[NetCase]{
		ID: "C09", Level: "exploration",
		Rule: fmt.Sprintf(netRule, "1-4") + "oracle at quiescence: no outgoing head whose destination can accept it, no unread input at a draining component, no sender left unwoken, every hop delivered; " +
			"distinct = hash of the (send/recv/retrieve, message, time) observation stream; non-trivial = >= 2 hops and (back-pressure, a same-instant forward, or a stalled receiver with unread input)",
		Assumptions: []string{"every agent eventually drains (all stall windows end and a wake is requested at each end)", "connections are lossless by contract; no loss/duplication is injected"},
		Real:        real, Stubs: stubs, FaultKinds: faults,
		Quick:    kit.Budget{Runs: 20000, WallS: 90},
		Thorough: kit.Budget{Runs: 1500000, WallS: 900},
		Gen:      func(r *kit.Rand, t kit.Tier) NetCase { return GenNet(r, t, 4) },
		Exec:     execC09, Shrink: shrinkNet,
	})
	kit.Register(kit.Spec[NetCase]{
		ID: "C10", Level: "exploration",
		Rule: fmt.Sprintf(netRule, "1 (3 in 4 runs) or 1-3") + "oracle over the hook-recorded history: every transmission delivered exactly once, deep-equal, only at the port named by Dst, after its send, and in send order per source port; nothing lost at quiescence; " +
			"distinct = hash of the observation stream; non-trivial = >= 2 hops and (back-pressure or a stalled receiver)",
		Assumptions: []string{"send/deliver are observed through the port hook positions (C33 covers that hooks do not change behaviour)"},
		Real:        real, Stubs: stubs, FaultKinds: faults,
		Quick:    kit.Budget{Runs: 20000, WallS: 90},
		Thorough: kit.Budget{Runs: 1500000, WallS: 900},
		Gen: func(r *kit.Rand, t kit.Tier) NetCase {
			if r.Chance(3, 4) {
				return GenNet(r, t, 1)
			}

			return GenNet(r, t, 3)
		},
		Exec: execC10, Shrink: shrinkNet,
	})
	kit.Register(kit.Spec[NetCase]{
		ID: "C12", Level: "exploration",
		Rule: fmt.Sprintf(netRule, "1-4") + "oracle = tick monitor on the engine's BeforeEvent hook: every TickEvent of every ticking agent and connection lies on a multiple of its period, at most one per (component, instant), " +
			"a tick that made progress is followed by a tick at exactly the next edge, and an empty->non-empty receive or a full->not-full outgoing buffer at time t is followed by a tick at an edge > t; " +
			"distinct = hash of the observation stream; non-trivial = at least one ticking agent and >= 4 tick events",
		Assumptions: []string{"progress of a connection tick is inferred from deliveries observed during that tick"},
		Real:        real, Stubs: stubs, FaultKinds: faults,
		Quick:    kit.Budget{Runs: 20000, WallS: 90},
		Thorough: kit.Budget{Runs: 1500000, WallS: 900},
		Gen:      func(r *kit.Rand, t kit.Tier) NetCase { return GenNet(r, t, 4) },
		Exec:     execC12, Shrink: shrinkNet,
	})
}

// PortMonitorRun executes a network case and returns the verdict of the
// in-situ port monitor (C11) together with the run's statistics.
func PortMonitorRun(c NetCase) kit.Outcome {
	r, out := runCase(c)
	out.Violation = r.w.monErr
	out.NonTrivial = r.w.probes["send-blocked-by-full-outgoing-buffer"] > 0

	return out
}

// ShrinkNet exposes the case shrinker.
func ShrinkNet(c NetCase) []NetCase { return shrinkNet(c) }

// TraceRun executes a network case with a trace log attached to the engine and every port.
func TraceRun(c NetCase) *tracelog.Log {
	timing.ResetIDGenerator()
	timing.UseSequentialIDGenerator()

	w := build(&c)
	l := &tracelog.Log{}
	l.Attach(w.eng, w.portByNm)
	w.run()

	return l
}
