// Package ctrlmon is the protocol monitor for the memory-agent control protocol
// (property C18), written from mem/CONTROL_PROTOCOL.md and the property
// statement. It observes one agent from outside, through hooks on its Control
// port, its Top port and its downstream ports, ordered by a global sequence.
package ctrlmon

import (
	"sort"

	"github.com/sarchlab/akita/v5/hooking"
	"github.com/sarchlab/akita/v5/mem/memcontrolprotocol"
	"github.com/sarchlab/akita/v5/messaging"
)

// Mon monitors one agent.
type Mon struct {
	Name    string
	Agent   string // kind, for messages and signatures
	Support memcontrolprotocol.VerbSupport
	Fail    func(oracle, sig, format string, args ...any)
	// Release tells the workload that a request may legitimately stay unanswered
	// (it was inside the agent when the agent was reset). forget=true: the agent
	// had not answered it, so a later answer is a violation.
	Release func(id uint64, forget bool)

	reqs      []memcontrolprotocol.Req
	rsps      int
	model     bool // model state: paused
	paused    bool // no-data-response window open
	Delivered map[uint64]bool
	accepted  map[uint64]bool
	answered  map[uint64]bool
	Received  map[uint64]bool // response received by the workload (set by the harness)
	downOut   map[uint64]bool
	preReset  map[uint64]bool

	Drains, Resets, Refusals, QueuedDuringPause, AsyncWhilePaused int
}

// New returns a monitor.
func New(name, agent string, support memcontrolprotocol.VerbSupport) *Mon {
	return &Mon{
		Name: name, Agent: agent, Support: support,
		Delivered: map[uint64]bool{}, accepted: map[uint64]bool{}, answered: map[uint64]bool{}, Received: map[uint64]bool{},
		downOut: map[uint64]bool{}, preReset: map[uint64]bool{},
	}
}

// Hook returns the hook to install on one of the agent's ports; role is "top",
// "down" (any port on which the agent sends requests downstream) or "control".
func (m *Mon) Hook(role string) hooking.Hook { return monHook{m, role} }

type monHook struct {
	m    *Mon
	role string
}

func (h monHook) Func(ctx hooking.HookCtx) {
	m := h.m

	msg, ok := ctx.Item.(messaging.Msg)
	if !ok {
		return
	}

	switch h.role {
	case "top":
		switch ctx.Pos {
		case messaging.HookPosPortMsgRecvd:
			m.Delivered[msg.Meta().ID] = true

			if m.paused {
				m.QueuedDuringPause++
			}
		case messaging.HookPosPortMsgRetrieveIncoming:
			m.accepted[msg.Meta().ID] = true
		case messaging.HookPosPortMsgSend:
			id := msg.Meta().RspTo
			if id == 0 {
				return
			}

			if m.paused {
				m.Fail("control-monitor", "C18:data-response-while-paused",
					"%s (%s) sent a data response (RspTo=%d) after acknowledging pause/drain and before being enabled", m.Name, m.Agent, id)
			}

			if m.preReset[id] {
				m.Fail("control-monitor", "C18:response-to-pre-reset-request",
					"%s (%s) answered request %d, which was delivered before its reset acknowledgment", m.Name, m.Agent, id)
			}

			m.answered[id] = true
		}
	case "down":
		switch ctx.Pos {
		case messaging.HookPosPortMsgSend:
			m.downOut[msg.Meta().ID] = true
		case messaging.HookPosPortMsgRetrieveIncoming:
			delete(m.downOut, msg.Meta().RspTo)
		}
	case "control":
		switch ctx.Pos {
		case messaging.HookPosPortMsgRecvd:
			if r, ok := msg.(memcontrolprotocol.Req); ok {
				m.reqs = append(m.reqs, r)
			}
		case messaging.HookPosPortMsgRetrieveIncoming:
			// The agent starts carrying out a drain or a flush: both verbs ask it to let
			// in-flight transactions finish, so answers to those transactions are
			// legitimate until the verb is acknowledged, even after a pause ack.
			if r, ok := msg.(memcontrolprotocol.Req); ok &&
				(r.Command == memcontrolprotocol.CmdDrain || (r.Command == memcontrolprotocol.CmdFlush && m.Support.Flush)) {
				if m.paused {
					m.AsyncWhilePaused++
				}

				m.paused = false
			}
		case messaging.HookPosPortMsgSend:
			if r, ok := msg.(memcontrolprotocol.Rsp); ok {
				m.onAck(r)
			}
		}
	}
}

func (m *Mon) onAck(rsp memcontrolprotocol.Rsp) {
	if m.rsps >= len(m.reqs) {
		m.Fail("control-monitor", "C18:extra-control-response", "%s sent a control response (cmd %d, RspTo %d) with no request pending", m.Name, rsp.Command, rsp.RspTo)
		return
	}

	req := m.reqs[m.rsps]
	m.rsps++

	if rsp.RspTo != req.ID || rsp.Command != req.Command {
		m.Fail("control-monitor", "C18:control-response-order", "%s (%s): control response #%d carries command %d / RspTo %d, the #%d request was command %d / ID %d (responses must come in request order with their command and ID)",
			m.Name, m.Agent, m.rsps-1, rsp.Command, rsp.RspTo, m.rsps-1, req.Command, req.ID)

		return
	}

	if rsp.Dst != req.Src {
		m.Fail("control-monitor", "C18:control-response-misaddressed", "%s: control response to %s, request came from %s", m.Name, rsp.Dst, req.Src)
		return
	}

	cmd := req.Command

	if !m.Support.Supports(cmd) {
		if rsp.Success || rsp.Error != memcontrolprotocol.ErrUnsupported {
			m.Fail("control-monitor", "C18:unsupported-verb-not-refused", "%s (%s): verb %d is unsupported but was answered Success=%v Error=%q", m.Name, m.Agent, cmd, rsp.Success, rsp.Error)
		}

		m.Refusals++

		return
	}

	if (cmd == memcontrolprotocol.CmdInvalidate || cmd == memcontrolprotocol.CmdFlush) && !m.model {
		if rsp.Success || rsp.Error != memcontrolprotocol.ErrMustBePausedOrDrained {
			m.Fail("control-monitor", "C18:illegal-state-verb-not-refused", "%s (%s): verb %d while running was answered Success=%v Error=%q", m.Name, m.Agent, cmd, rsp.Success, rsp.Error)
		}

		m.Refusals++

		return
	}

	if !rsp.Success {
		m.Fail("control-monitor", "C18:supported-verb-failed", "%s (%s): supported verb %d in model state paused=%v answered Success=false Error=%q", m.Name, m.Agent, cmd, m.model, rsp.Error)
		return
	}

	switch cmd {
	case memcontrolprotocol.CmdPause:
		m.model, m.paused = true, true
	case memcontrolprotocol.CmdDrain:
		m.model, m.paused = true, true
		m.Drains++

		var ids []uint64
		for id := range m.accepted {
			ids = append(ids, id)
		}

		sort.Slice(ids, func(i, j int) bool { return ids[i] < ids[j] })

		for _, id := range ids {
			if !m.answered[id] && !m.preReset[id] {
				m.Fail("control-monitor", "C18:drain-ack-with-unanswered-request", "%s (%s) acknowledged drain while request %d, accepted earlier, has not been answered", m.Name, m.Agent, id)
				return
			}
		}

		if len(m.downOut) > 0 {
			m.Fail("control-monitor", "C18:drain-ack-with-downstream-outstanding", "%s (%s) acknowledged drain with %d downstream request(s) still awaiting or not having processed their response", m.Name, m.Agent, len(m.downOut))
			return
		}
	case memcontrolprotocol.CmdFlush:
		m.paused = m.model
	case memcontrolprotocol.CmdEnable:
		m.model, m.paused = false, false
	case memcontrolprotocol.CmdReset:
		m.model, m.paused = false, false
		m.Resets++

		var ids []uint64
		for id := range m.Delivered {
			ids = append(ids, id)
		}

		sort.Slice(ids, func(i, j int) bool { return ids[i] < ids[j] })

		for _, id := range ids {
			if m.Received[id] || m.preReset[id] {
				continue
			}

			if !m.answered[id] {
				m.preReset[id] = true
				m.Release(id, true)
			} else {
				m.Release(id, false) // already sent; may or may not still arrive
			}
		}

		m.downOut = map[uint64]bool{}
	}
}
