#!/bin/bash
# tools/selftest_determinism.sh [ids…]: runs each check three times on the same seed with
# different worker counts and GOMAXPROCS and compares the run fingerprints (XOR of the
# per-run shape hashes: schedule decisions, event counts, end times, outcomes).
cd /verif
ids="$@"; [ -z "$ids" ] && ids=$(python3 -c "import json; print(' '.join(c['property_id'] for c in json.load(open('MANIFEST.json'))['checks']))")
fail=0
for id in $ids; do
  runs=400; case $id in C06|C07|C37|C38) runs=60;; C03|C04) runs=300;; esac
  f1=$(./check $id --tier quick -runs $runs -wall 600 -workers 16 2>&1 | grep -o 'fingerprint=[0-9a-f]*')
  f2=$(GOMAXPROCS=4 ./check $id --tier quick -runs $runs -wall 600 -workers 5 2>&1 | grep -o 'fingerprint=[0-9a-f]*')
  f3=$(GOMAXPROCS=1 ./check $id --tier quick -runs $runs -wall 600 -workers 11 2>&1 | grep -o 'fingerprint=[0-9a-f]*')
  if [ -n "$f1" ] && [ "$f1" = "$f2" ] && [ "$f2" = "$f3" ]; then echo "$id same $f1"; else echo "$id DIFFERENT $f1 $f2 $f3"; fail=1; fi
done
git -C /verif checkout -- evidence 2>/dev/null
exit $fail
