#!/bin/bash
# tools/confirm_mut.sh <Cxx> <a|b>: independently confirm a seeded change in its scratch worktree:
# builds, existing tests pass, demo fails with the change and passes without it. Writes _out/confirm_<x>.json
id=$1; x=$2; wt=/tmp/mut/$id; out=$wt/_out
export GOFLAGS=-mod=mod GOPROXY=off GOSUMDB=off GOTOOLCHAIN=local
cd $wt || exit 2
git checkout -q -- . ; git clean -fdq -e _out -e _TASK.md
log=$out/confirm_$x.log; : > $log
# demo without change
cp -r $out/demo_$x/. . 2>>$log
demo_pkgs=$(cd $out/demo_$x && find . -name '*.go' -printf '%h\n' | sort -u)
run_demo() { rc=0; for p in $demo_pkgs; do if ls $p/*_test.go >/dev/null 2>&1 && grep -lq "zz\|ZZ\|Demo" $p/zz_* 2>/dev/null; then go1.26.8 test -vet=off -count=1 -run 'Demo|ZZ|zz' $p >>$log 2>&1 || rc=1; else go1.26.8 run $p >>$log 2>&1 || rc=1; fi; done; return $rc; }
echo "== demo without change" >>$log; run_demo; demo_clean=$?
git apply $out/$x.diff >>$log 2>&1 || { echo "{\"id\":\"$id\",\"x\":\"$x\",\"error\":\"patch does not apply\"}" > $out/confirm_$x.json; exit 1; }
echo "== build" >>$log; go1.26.8 build ./... >>$log 2>&1; build=$?
echo "== demo with change" >>$log; run_demo; demo_mut=$?
# remove demo before running the existing suite
(cd $out/demo_$x && find . -type f) | while read f; do rm -f "$wt/$f"; done
echo "== existing tests" >>$log
go1.26.8 test -vet=off -count=1 -timeout 25m ./... > $out/confirm_${x}_tests.log 2>&1
fails=$(grep -E "^(FAIL|---) " $out/confirm_${x}_tests.log | grep -v "build failed" | grep -v "^FAIL$" | head -5 | tr '\n' ';')
nok=$(grep -c "^ok" $out/confirm_${x}_tests.log)
git checkout -q -- . ; git clean -fdq -e _out -e _TASK.md
echo "{\"id\":\"$id\",\"x\":\"$x\",\"build_rc\":$build,\"demo_clean_rc\":$demo_clean,\"demo_mut_rc\":$demo_mut,\"test_pkgs_ok\":$nok,\"test_failures\":\"$fails\"}" > $out/confirm_$x.json
cat $out/confirm_$x.json
