#!/bin/bash
# tools/run_all.sh [quick|thorough] [extra check args…]: every claimed check once, summary lines only
tier=${1:-quick}; shift
cd "$(dirname "$0")/.."
for id in $(python3 -c "import json; print(' '.join(c['property_id'] for c in json.load(open('MANIFEST.json'))['checks']))"); do
  out=$(./check $id --tier $tier "$@" 2>&1); rc=$?
  echo "$id exit=$rc $(echo "$out" | grep -E '^summary' | cut -c1-160)"
  if [ $rc -ne 0 ]; then echo "$out" | grep -E "VIOLATION|^violation|BUILD|HARNESS|WATCHDOG" | head -5 | cut -c1-300; fi
done
