#!/usr/bin/env python3
"""tools/collect_seeded.py <Cxx> <a|b> "<needs>" "<detected_by>" : copy a confirmed seeded change into /verif/seeded/<Cxx>-<x>/"""
import json, os, shutil, sys
pid, x, needs, detected = sys.argv[1:5]
dx = sys.argv[5] if len(sys.argv) > 5 else x  # name of the kept variant (second rounds: c, d)
src = '/tmp/mut/%s/_out' % pid
dst = '/verif/seeded/%s-%s' % (pid, dx)
os.makedirs(dst, exist_ok=True)
shutil.copy(os.path.join(src, x + '.diff'), os.path.join(dst, 'patch.diff'))
d = os.path.join(dst, 'demo')
if os.path.exists(d): shutil.rmtree(d)
shutil.copytree(os.path.join(src, 'demo_' + x), d)
if os.path.exists(os.path.join(src, 'NOTES.md')):
    shutil.copy(os.path.join(src, 'NOTES.md'), os.path.join(dst, 'agent_notes.md'))
conf = json.load(open(os.path.join(src, 'confirm_%s.json' % x)))
prop = [json.loads(l) for l in open('/verif/properties.jsonl') if json.loads(l)['id'] == pid][0]
meta = {
    "property": pid, "variant": dx, "title": prop['title'],
    "needs_to_manifest": needs,
    "confirmed_in_scratch_worktree": {
        "what_i_ran": "tools/confirm_mut.sh %s %s (git apply patch; go1.26.8 build ./...; demo with and without the patch; go1.26.8 test -vet=off -count=1 ./... with the patch and without the demo)" % (pid, x),
        "build_ok": conf.get('build_rc') == 0,
        "demo_passes_without_change": conf.get('demo_clean_rc') == 0,
        "demo_fails_with_change": conf.get('demo_mut_rc') != 0,
        "existing_test_packages_ok": conf.get('test_pkgs_ok'),
        "existing_test_failures": conf.get('test_failures'),
    },
    "detected_by": detected,
    "how_checked": "tools/trymut.sh seeded/%s-%s/patch.diff <checks> (git -C /repo apply, ./check <id> --tier quick, git checkout)" % (pid, dx),
}
json.dump(meta, open(os.path.join(dst, 'meta.json'), 'w'), indent=1)
print(dst)
