#!/usr/bin/env python3
"""Regenerates the generated tables of DESIGN.md (between the GENERATED markers) from
known_findings.json, seeded/*/meta.json, MANIFEST.json and the /repo commit log."""
import json, os, re, subprocess, glob
home = os.path.dirname(os.path.dirname(os.path.abspath(__file__)))
kf = json.load(open(os.path.join(home, 'known_findings.json')))['findings']
out = []
out.append("### 11.6 Findings (generated from known_findings.json)\n")
out.append("Repaired in /repo by `fix:` commits (a fixed entry suppresses nothing; the check reports the violation again if it returns):\n")
out.append("| property | commit | signature | what failed |\n|---|---|---|---|")
for f in kf:
    if f['status'] == 'fixed':
        what = re.sub(r'^fixed: property=\S+ \S+ ', '', f['what'])
        out.append("| %s | %s | `%s` | %s |" % (f['property'], f.get('commit', ''), f['sig'], what.replace('|', '\\|')))
out.append("\nOpen (listed; the check prints `KNOWN-FINDING:` and exits 0; any other signature of the same property still fails):\n")
out.append("| property | signature | what fails and why it is not repaired |\n|---|---|---|")
for f in kf:
    if f['status'] == 'open':
        out.append("| %s | `%s` | %s |" % (f['property'], f['sig'], f['what'].replace('|', '\\|')))
out.append("\n### 11.7 Seeded changes: which checks catch which (generated from seeded/*/meta.json)\n")
out.append("Each change was produced by a sub-agent that saw only the property text and a scratch worktree, then confirmed by `tools/confirm_mut.sh` (builds; the unedited test suite passes with it; its demonstration fails with it and passes without) and run against the checks with `tools/trymut.sh`.\n")
out.append("| id | needs, in short | detected by |\n|---|---|---|")
nd = []
for d in sorted(glob.glob(os.path.join(home, 'seeded', 'C*'))):
    m = json.load(open(os.path.join(d, 'meta.json')))
    needs = re.sub(r'\s+', ' ', m.get('needs_to_manifest', ''))
    needs = re.sub(r'^[#*\s]*(What it )?needs? to manifest[:.*\s()a-z,/+-]*', '', needs, flags=re.I)[:230]
    det = m.get('detected_by', '')
    out.append("| %s | %s | %s |" % (os.path.basename(d), needs.replace('|', '\\|'), det.replace('|', '\\|')))
    if 'NOT DETECTED' in det.upper() or det.strip() in ('', 'none'):
        nd.append(os.path.basename(d))
out.append("\nNot detected: %s. Not kept: see seeded/NOT_KEPT.md.\n" % (', '.join(nd) or 'none'))
hooks = subprocess.check_output(['git', '-C', '/repo', 'log', '--format=%h %s', '--grep', '^verif hook'], text=True).strip().splitlines()
out.append("### 11.3 Hooks in /repo (generated from the commit log; guard: build tag `verif`)\n")
for h in reversed(hooks):
    out.append("* `%s`" % h)
out.append("")
p = os.path.join(home, 'DESIGN.md')
s = open(p).read()
b, e = '<!-- BEGIN GENERATED -->', '<!-- END GENERATED -->'
if b not in s:
    s += "\n" + b + "\n" + e + "\n"
s = s[:s.index(b) + len(b)] + "\n" + "\n".join(out) + "\n" + s[s.index(e):]
open(p, 'w').write(s)
print("DESIGN.md tables regenerated:", sum(1 for f in kf if f['status'] == 'fixed'), "fixed,", sum(1 for f in kf if f['status'] == 'open'), "open,", len(glob.glob(os.path.join(home, 'seeded', 'C*'))), "seeded")
