// Command weave produces a `go build -overlay` file in which selected akita
// source files are replaced by copies with scheduling yield points woven in:
//
//   - a yield before every statement (and at the entry of every function literal),
//   - Lock/RLock preceded by a "want this mutex" yield and Unlock/RUnlock followed
//     by a release notification, so that the simulator can model mutex ownership
//     and preempt a goroutine while it holds a lock,
//   - sync.Cond Wait/Broadcast/Signal replaced by a modelled condition variable.
//
// /repo is never modified: the woven copies and one added file per package (the
// hook variables) live in the output directory. Usage:
//
//	weave -out DIR  pkgdir:file.go,file.go  [pkgdir:file.go ...]
package main

import (
	"bytes"
	"encoding/json"
	"flag"
	"fmt"
	"go/ast"
	"go/format"
	"go/parser"
	"go/token"
	"os"
	"path/filepath"
	"strings"
)

var fset = token.NewFileSet()

func call(fn string, args ...ast.Expr) *ast.ExprStmt {
	return &ast.ExprStmt{X: &ast.CallExpr{Fun: ast.NewIdent(fn), Args: args}}
}

func str(s string) ast.Expr { return &ast.BasicLit{Kind: token.STRING, Value: fmt.Sprintf("%q", s)} }

func site(base string, n ast.Node) ast.Expr {
	p := fset.Position(n.Pos())
	return str(fmt.Sprintf("%s:%d", base, p.Line))
}

func exprText(e ast.Expr) string {
	var b bytes.Buffer
	_ = format.Node(&b, fset, e)

	return b.String()
}

// lockID returns the expression identifying the mutex that X.Lock() locks.
func lockID(x ast.Expr) ast.Expr {
	if id, ok := x.(*ast.Ident); ok && !valueMutexes[id.Name] {
		return x // a pointer (or the receiver) with an embedded mutex
	}

	return &ast.UnaryExpr{Op: token.AND, X: x}
}

// valueMutexes names the package-level variables of the file being woven that
// are mutex values (var mu sync.Mutex): they are identified by their address.
var valueMutexes = map[string]bool{}

func collectValueMutexes(file *ast.File) {
	valueMutexes = map[string]bool{}

	for _, d := range file.Decls {
		gd, ok := d.(*ast.GenDecl)
		if !ok || gd.Tok != token.VAR {
			continue
		}

		for _, sp := range gd.Specs {
			vs := sp.(*ast.ValueSpec)
			if vs.Type == nil {
				continue
			}

			if t := exprText(vs.Type); t == "sync.Mutex" || t == "sync.RWMutex" {
				for _, n := range vs.Names {
					valueMutexes[n.Name] = true
				}
			}
		}
	}
}

type weaver struct{ base string }

func (w *weaver) lockCall(s ast.Stmt) (recv ast.Expr, name string, ok bool) {
	es, isExpr := s.(*ast.ExprStmt)
	if !isExpr {
		return nil, "", false
	}

	c, isCall := es.X.(*ast.CallExpr)
	if !isCall || len(c.Args) != 0 {
		return nil, "", false
	}

	sel, isSel := c.Fun.(*ast.SelectorExpr)
	if !isSel {
		return nil, "", false
	}

	switch sel.Sel.Name {
	case "Lock", "RLock", "Unlock", "RUnlock":
		return sel.X, sel.Sel.Name, true
	case "Wait", "Broadcast", "Signal":
		if strings.Contains(strings.ToLower(exprText(sel.X)), "cond") {
			return sel.X, sel.Sel.Name, true
		}
	}

	return nil, "", false
}

func boolLit(b bool) ast.Expr {
	if b {
		return ast.NewIdent("true")
	}

	return ast.NewIdent("false")
}

func (w *weaver) stmts(list []ast.Stmt) []ast.Stmt {
	var out []ast.Stmt

	for _, s := range list {
		if _, isDecl := s.(*ast.DeclStmt); !isDecl {
			out = append(out, call("verifYield", site(w.base, s)))
		}

		if recv, name, ok := w.lockCall(s); ok {
			switch name {
			case "Lock", "RLock":
				out = append(out, call("verifLock", lockID(recv), site(w.base, s), boolLit(name == "Lock")), s)
			case "Unlock", "RUnlock":
				out = append(out, s, call("verifUnlock", lockID(recv), boolLit(name == "Unlock")))
			case "Wait":
				out = append(out, call("verifCondWait", recv))
			default:
				out = append(out, call("verifCondBroadcast", recv))
			}

			continue
		}

		if d, ok := s.(*ast.DeferStmt); ok {
			if sel, ok := d.Call.Fun.(*ast.SelectorExpr); ok && len(d.Call.Args) == 0 &&
				(sel.Sel.Name == "Unlock" || sel.Sel.Name == "RUnlock") {
				body := &ast.BlockStmt{List: []ast.Stmt{
					&ast.ExprStmt{X: d.Call},
					call("verifUnlock", lockID(sel.X), boolLit(sel.Sel.Name == "Unlock")),
				}}
				out = append(out, &ast.DeferStmt{Call: &ast.CallExpr{Fun: &ast.FuncLit{Type: &ast.FuncType{Params: &ast.FieldList{}}, Body: body}}})

				continue
			}
		}

		w.stmt(s)
		out = append(out, s)
	}

	return out
}

func (w *weaver) block(b *ast.BlockStmt) {
	if b != nil {
		b.List = w.stmts(b.List)
	}
}

func (w *weaver) stmt(s ast.Stmt) {
	switch n := s.(type) {
	case *ast.BlockStmt:
		w.block(n)
	case *ast.IfStmt:
		w.block(n.Body)

		if n.Else != nil {
			w.stmt(n.Else)
		}
	case *ast.ForStmt:
		w.block(n.Body)
	case *ast.RangeStmt:
		// a range over a map named with -maprange goes through verifRangeMap: keys in
		// sorted order, permuted by the simulator (Go leaves the order open; the
		// simulator owns that choice like every other one)
		if mapRanges[exprText(n.X)] {
			n.X = &ast.CallExpr{Fun: ast.NewIdent("verifRangeMap"), Args: []ast.Expr{n.X}}
			mapRangeCount++
		}

		w.block(n.Body)
	case *ast.SwitchStmt:
		for _, c := range n.Body.List {
			cc := c.(*ast.CaseClause)
			cc.Body = w.stmts(cc.Body)
		}
	case *ast.TypeSwitchStmt:
		for _, c := range n.Body.List {
			cc := c.(*ast.CaseClause)
			cc.Body = w.stmts(cc.Body)
		}
	case *ast.SelectStmt:
		for _, c := range n.Body.List {
			cc := c.(*ast.CommClause)
			cc.Body = w.stmts(cc.Body)
		}
	case *ast.LabeledStmt:
		w.stmt(n.Stmt)
	}

	// function literals inside the statement (go func(){…}(), callbacks)
	ast.Inspect(s, func(x ast.Node) bool {
		if fl, ok := x.(*ast.FuncLit); ok {
			w.block(fl.Body)
			return false
		}

		switch x.(type) {
		case *ast.BlockStmt:
			return x == ast.Node(s) // nested blocks were handled above
		}

		return true
	})
}

const hookFile = `// Code generated by /verif/tools/weave. DO NOT EDIT.

package %s

import (
	"cmp"
	"slices"
	"sync"
)

// Hook variables set by the deterministic scheduler in /verif.
var (
	VerifMapOrder      func(n int) []int
	VerifYield         func(site string)
	VerifLock          func(m any, site string, write bool)
	VerifUnlock        func(m any, write bool)
	VerifCondWait      func(c *sync.Cond)
	VerifCondBroadcast func(c *sync.Cond)
)

func verifYield(site string) {
	if VerifYield != nil {
		VerifYield(site)
	}
}

func verifLock(m any, site string, write bool) {
	if VerifLock != nil {
		VerifLock(m, site, write)
	}
}

func verifUnlock(m any, write bool) {
	if VerifUnlock != nil {
		VerifUnlock(m, write)
	}
}

func verifCondWait(c *sync.Cond) {
	if VerifCondWait != nil {
		VerifCondWait(c)
		return
	}

	c.Wait()
}

// verifRangeMap iterates m in an order the simulator decides: sorted keys,
// permuted by VerifMapOrder when it is set.
func verifRangeMap[K cmp.Ordered, V any](m map[K]V) func(yield func(K, V) bool) {
	return func(yield func(K, V) bool) {
		keys := make([]K, 0, len(m))
		for k := range m {
			keys = append(keys, k)
		}

		slices.Sort(keys)

		if VerifMapOrder != nil {
			perm := VerifMapOrder(len(keys))
			if len(perm) == len(keys) {
				ordered := make([]K, len(keys))
				for i, p := range perm {
					ordered[i] = keys[p]
				}

				keys = ordered
			}
		}

		for _, k := range keys {
			v, ok := m[k]
			if !ok {
				continue // deleted while iterating
			}

			if !yield(k, v) {
				return
			}
		}
	}
}

func verifCondBroadcast(c *sync.Cond) {
	if VerifCondBroadcast != nil {
		VerifCondBroadcast(c)
		return
	}

	c.Broadcast()
}
`

const modulePath = "github.com/sarchlab/akita/v5"

const exportFile = `package %s

import (
	"sync"

	%s "%s"
)

// VerifWeaveHooks_%s sets the weave hooks of the internal package.
func VerifWeaveHooks_%s(y func(string), l func(any, string, bool), u func(any, bool), cw, cb func(*sync.Cond)) {
	%s.VerifYield, %s.VerifLock, %s.VerifUnlock, %s.VerifCondWait, %s.VerifCondBroadcast = y, l, u, cw, cb
}
`

var (
	mapRanges     = map[string]bool{}
	mapRangeCount int
)

func main() {
	out := flag.String("out", "", "output directory")
	maps := flag.String("maprange", "", "comma-separated expressions: a range over one of them is a map range the simulator orders")
	repo := flag.String("repo", "/repo", "repository root")

	flag.Parse()

	for _, m := range strings.Split(*maps, ",") {
		if m != "" {
			mapRanges[m] = true
		}
	}

	if *out == "" {
		fmt.Fprintln(os.Stderr, "weave: -out is required")
		os.Exit(2)
	}

	_ = os.MkdirAll(*out, 0o755)
	overlay := map[string]string{}
	yields := 0

	for _, spec := range flag.Args() {
		// dir:files[@exportdir] - exportdir names a (non-internal) parent package
		// that gets a setter for the hook variables of an internal package
		spec, exportDir, _ := strings.Cut(spec, "@")

		dir, files, ok := strings.Cut(spec, ":")
		if !ok {
			fmt.Fprintf(os.Stderr, "weave: bad spec %q\n", spec)
			os.Exit(2)
		}

		pkgName := ""

		for _, f := range strings.Split(files, ",") {
			src := filepath.Join(*repo, dir, f)

			file, err := parser.ParseFile(fset, src, nil, parser.ParseComments)
			if err != nil {
				fmt.Fprintf(os.Stderr, "weave: %v\n", err)
				os.Exit(2)
			}

			pkgName = file.Name.Name
			collectValueMutexes(file)
			w := &weaver{base: filepath.Join(dir, f)}

			for _, d := range file.Decls {
				if fd, ok := d.(*ast.FuncDecl); ok && fd.Body != nil {
					w.block(fd.Body)
				}
			}

			var buf bytes.Buffer
			if err := format.Node(&buf, fset, file); err != nil {
				fmt.Fprintf(os.Stderr, "weave: print %s: %v\n", src, err)
				os.Exit(2)
			}

			yields += bytes.Count(buf.Bytes(), []byte("verifYield("))
			dst := filepath.Join(*out, strings.ReplaceAll(filepath.Join(dir, f), "/", "__"))

			if err := os.WriteFile(dst, buf.Bytes(), 0o644); err != nil {
				fmt.Fprintln(os.Stderr, err)
				os.Exit(2)
			}

			overlay[src] = dst
		}

		hook := filepath.Join(*out, strings.ReplaceAll(dir, "/", "__")+"__zz_verif_weave.go")
		_ = os.WriteFile(hook, []byte(fmt.Sprintf(hookFile, pkgName)), 0o644)
		overlay[filepath.Join(*repo, dir, "zz_verif_weave.go")] = hook

		if exportDir != "" {
			exp := filepath.Join(*out, strings.ReplaceAll(exportDir, "/", "__")+"__zz_verif_export_"+pkgName+".go")
			src := fmt.Sprintf(exportFile, filepath.Base(exportDir), pkgName, modulePath+"/"+dir, pkgName, pkgName, pkgName, pkgName, pkgName, pkgName, pkgName)
			_ = os.WriteFile(exp, []byte(src), 0o644)
			overlay[filepath.Join(*repo, exportDir, "zz_verif_export_"+pkgName+".go")] = exp
		}
	}

	b, _ := json.MarshalIndent(map[string]any{"Replace": overlay}, "", " ")
	if err := os.WriteFile(filepath.Join(*out, "overlay.json"), b, 0o644); err != nil {
		fmt.Fprintln(os.Stderr, err)
		os.Exit(2)
	}

	fmt.Printf("weave: %d files, %d yield points, %d ordered map ranges -> %s\n", len(overlay), yields, mapRangeCount, filepath.Join(*out, "overlay.json"))
}
