#!/usr/bin/env python3
"""Regenerates /verif/MANIFEST.json from tools/checks.json (the per-property table)."""
import json, os, subprocess
home = os.path.dirname(os.path.dirname(os.path.abspath(__file__)))
tab = json.load(open(os.path.join(home, 'tools', 'manifest_base.json')))
tab['checks'] = {}
for f in sorted(os.listdir(os.path.join(home, 'tools', 'checks.d'))):
    tab['checks'][f[:-5]] = json.load(open(os.path.join(home, 'tools', 'checks.d', f)))
# engines: serves_properties is derived from the checks
for e in tab['engines']:
    e['serves_properties'] = sorted(k for k, v in tab['checks'].items() if v['engine'] == e['name'] or e['name'] in v.get('also_engines', []))
props = [json.loads(l) for l in open(os.path.join(home, 'properties.jsonl'))]
ids = [p['id'] for p in props]
checks, na = [], []
for pid in ids:
    c = tab['checks'].get(pid)
    if c is None:
        na.append({"property_id": pid, "reason": tab['not_applicable'].get(pid, "check not built yet in this session (planned, see DESIGN.md section 4)")})
        continue
    checks.append({
        "property_id": pid,
        "quick_cmd": "./check %s --tier quick" % pid,
        "thorough_cmd": "./check %s --tier thorough" % pid,
        "evidence_file": "/verif/evidence/%s.json" % pid,
        "replay_cmd_template": "./check --replay {path}",
        "engine": c['engine'],
        "level_claimed": {"category": c.get('level', 'exploration'), "text": c['text'], "design_ref": c.get('design_ref', 'DESIGN.md section 4, ' + pid)},
        "level_note": c['note'],
        "technique": c.get('technique', 'deterministic simulation: seeded search over schedules/programs/fault sequences with a reference-model oracle'),
    })
try:
    hooks = subprocess.check_output(['git', '-C', '/repo', 'log', '--format=%H %s', '--grep', '^verif hook'], text=True).strip().splitlines()
except Exception:
    hooks = []
m = {
    "version": 1,
    "setup_cmd": "./setup.sh",
    "hooks": {
        "guard": "verif",
        "enable": "go build -tags verif (every ./check invocation rebuilds bin/simcheck from /repo's working tree with -tags verif; the E-conc checks additionally build with a yield-weaving -overlay generated from the working tree)",
        "baseline_off_cmd": "cd /repo && GOFLAGS=-mod=mod GOPROXY=off GOSUMDB=off GOTOOLCHAIN=local go1.26.8 test -vet=off -count=1 -timeout 25m ./...",
        "source_commits": [h.split()[0] for h in hooks],
        "add_only": True,
    },
    "engines": tab['engines'],
    "checks": checks,
    "not_applicable": na,
    "notes": tab.get('notes', ''),
}
json.dump(m, open(os.path.join(home, 'MANIFEST.json'), 'w'), indent=1)
print("checks:", len(checks), "not claimed:", len(na))
