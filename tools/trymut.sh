#!/bin/bash
# tools/trymut.sh <patch> <prop> [<prop>...]: apply a seeded change to /repo, run the quick checks, undo.
patch=$1; shift
stamp=$(mktemp /var/tmp/trymut.XXXXXX)
cd /verif
if [ -n "$(git -C /repo status --short | grep -v examples/0)" ]; then echo "/repo has uncommitted changes; refusing"; exit 2; fi
if ! git -C /repo apply --check "$patch" 2>/dev/null; then echo "PATCH-DOES-NOT-APPLY $patch"; git -C /repo apply --3way "$patch" 2>&1 | tail -3; fi
git -C /repo apply "$patch" 2>/dev/null || git -C /repo apply --3way "$patch" || { echo "cannot apply"; git -C /repo reset -q; git -C /repo checkout -- $(git -C /repo diff --name-only | grep -v '^examples/0') 2>/dev/null; exit 2; }
for p in "$@"; do
  out=$(./check $p --tier quick 2>&1); rc=$?
  echo "== $p exit=$rc"; echo "$out" | grep -E "VIOLATION|violation|KNOWN|summary|BUILD|HARNESS|NONDET" | head -6
done
git -C /repo reset -q; git -C /repo checkout -- $(git -C /repo diff --name-only | grep -v '^examples/0') 2>/dev/null; git -C /repo status --short | grep -v "examples/0" 
# replays and evidence written while the change was applied do not describe the unchanged tree
rm -rf /verif/replays.mut; mkdir -p /verif/replays.mut; find /verif/replays -newer "$stamp" -type f -exec mv {} /verif/replays.mut/ \; 2>/dev/null
git -C /verif checkout -- evidence 2>/dev/null; rm -f "$stamp"; true
