#!/usr/bin/env python3
"""tools/collect_auto.py <Cxx> <a|b> "<detected_by>": like collect_seeded.py, taking the
'needs to manifest' paragraph for the variant out of the agent's NOTES.md."""
import re, subprocess, sys, os
pid, x, det = sys.argv[1:4]
dx = sys.argv[4:5]
notes = open('/tmp/mut/%s/_out/NOTES.md' % pid).read().splitlines()
idx = [i for i, l in enumerate(notes) if re.search(r'needs? to manifest|\*\*Needs|^\s*-\s*\*\*Needs|Trigger', l, re.I)]
needs = "see agent_notes.md"
if idx:
    k = idx[0] if x == 'a' or len(idx) < 2 else idx[1]
    para = []
    for l in notes[k:k + 8]:
        if para and (not l.strip() or l.startswith('#')):
            if len(' '.join(para)) > 60: break
            continue
        para.append(l.strip())
    needs = re.sub(r'\s+', ' ', ' '.join(para))[:700]
subprocess.check_call([os.path.join(os.path.dirname(__file__), 'collect_seeded.py'), pid, x, needs, det] + dx)
