#!/bin/bash
# tools/sweep.sh <tier> <seed> <wall-per-check> [ids…]: runs the checks from a snapshot of
# /verif and of /repo's HEAD (under /var/tmp), so that work going on in /verif and /repo
# (edits, seeded changes being tried) cannot disturb it. Log: /var/tmp/sweep-<tier>-<seed>.log
tier=$1; seed=$2; wall=$3; shift 3
snapv=/var/tmp/verif-sweep-$seed; snapr=/var/tmp/repo-sweep-$seed
rm -rf "$snapv"; git -C /repo worktree remove --force "$snapr" 2>/dev/null; rm -rf "$snapr"
git -C /repo worktree add -q --detach "$snapr" HEAD || exit 2
mkdir -p "$snapv"; (cd /verif && git ls-files -z | xargs -0 cp --parents -t "$snapv")
sed -i "s#=> /repo#=> $snapr#" "$snapv/go.mod"
export VERIF_REPO=$snapr
log=/var/tmp/sweep-$tier-$seed.log; : > $log
cd "$snapv"
if [ $# -gt 0 ]; then ids="$@"; else ids=$(python3 -c "import json; print(' '.join(c['property_id'] for c in json.load(open('MANIFEST.json'))['checks']))"); fi
for id in $ids; do
  out=$(./check $id --tier $tier -seed $seed -wall $wall 2>&1); rc=$?
  echo "$id exit=$rc $(echo "$out" | grep -E '^summary' | cut -c1-170 | tr '\n' ' ')" >> $log
  if [ $rc -ne 0 ]; then echo "$out" | grep -E "VIOLATION|^violation|BUILD|HARNESS|WATCHDOG" | head -5 | cut -c1-400 >> $log; mkdir -p /var/tmp/sweep-replays-$seed; cp -r replays/. /var/tmp/sweep-replays-$seed/ 2>/dev/null; fi
done
cd /; rm -rf "$snapv"; git -C /repo worktree remove --force "$snapr" 2>/dev/null
echo done >> $log
